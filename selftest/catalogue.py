"""Catalogue of self-test variants (see engine.py).  M = must be reported, E = must stay silent."""

import re

from .engine import Variant as V

ST = 'streamer/_streamer.py'
SA = 'streamer/_streamer_async.py'
SV = 'mpserver/_server.py'
SL = 'mpserver/_servlet.py'
WK = 'mpserver/_worker.py'
QS = '_queues.py'
TE = 'streamer/_tee.py'
CX = 'multiprocessing/context.py'
TH = 'threading/__init__.py'
MP = 'multiprocessing/__init__.py'
SP = 'multiprocessing/server_process.py'
RE = 'multiprocessing/remote_exception.py'
QU = 'queue.py'
SO = 'socket.py'
PI = 'pipe.py'

ALL = tuple(f'C{i:02d}' for i in range(1, 21))

VARIANTS = [
    # ------------------------------------------------------------------ C01 / C16 (fifo pattern)
    V('C01-M1', 'M', ('C01',), ST, 'fifo_stream.feed', r'q\.put\(\(x, fut\)\)', 'q.put((xx if preprocessor is not None else x, fut))', ('C01-1',)),
    V('C01-M2', 'M', ('C01',), ST, 'fifo_stream.feed', r'fut = concurrent\.futures\.Future\(\)\n\s+fut\.set_exception\(e\)', 'pass', ('C01-1',), note='failure path reuses the previous future'),
    V('C01-M3', 'M', ('C01',), ST, 'fifo_stream.feed', r'(\n(\s+)q\.put\(\(x, fut\)\))', r'\1\n\2if preprocessor is None:\n\2    q.put((x, fut))', ('C01-2',)),
    V('C01-M4', 'M', ('C01',), ST, 'fifo_stream', r'yield x, y', 'yield y, x', ('C01-3',)),
    V('C01-M5', 'M', ('C01',), ST, 'fifo_stream', r'if return_exceptions:\n(\s+)# TODO[^\n]*\n\s+y = e', r'if return_exceptions:\n\1continue', ('C01-3',)),
    V('C01-M6', 'M', ('C01',), QS, 'SingleLane.get', r'popleft\(\)', 'pop()', ('C01-4',)),
    V('C01-M7', 'M', ('C01',), QS, 'SingleLane.get', r'self\._not_full\.notify\(\)', 'self._not_empty.notify()', ('C01-4',)),
    V('C01-M8', 'M', ('C01',), ST, 'fifo_stream', r'(feeder\.start\(\))', r'\1\n    Thread(target=feed, args=(instream, func), kwargs={"to_stop": to_stop, "q": tasks, "preprocessor": preprocessor, **kwargs}).start()', ('C01-5',)),
    V('C01-M9', 'M', ('C01',), ST, 'Parmapper.__iter__._work', r'executor\.submit\(self\._func, x,', 'executor.submit(self._func,', ('C01-6',)),
    V('C01-M10', 'M', ('C01',), ST, 'fifo_stream', r'x, fut = z', 'fut, x = z', ('C01-3',)),
    V('C01-M11', 'M', ('C01',), ST, 'fifo_stream', r'tasks = SingleLane\(capacity \+ 1\)', 'tasks = queue.LifoQueue(capacity + 1)', ('C01-4',)),
    V('C01-E1', 'E', ('C01', 'C05', 'C07', 'C08', 'C16'), ST, 'fifo_stream.feed', r'\bfut\b', 'f2', count=0),
    V('C01-E2', 'E', ('C01', 'C05', 'C08', 'C16'), ST, 'fifo_stream.feed', r'if preprocessor is None:\n(\s+)fut = func\(x, \*\*func_kwargs\)\n(\s+)else:\n(.*?)(\n\s+q\.put\(\(x, fut\)\))', lambda m: 'if preprocessor is not None:\n' + m.group(3) + '\n' + m.group(2) + 'else:\n' + m.group(1) + 'fut = func(x, **func_kwargs)' + m.group(4)),
    V('C01-E3', 'E', ('C01', 'C05', 'C07', 'C08', 'C16'), ST, 'fifo_stream', r'while True:\n(\s+)z = tasks\.get\(\)\n\s+if z is None:\n\s+break\n', r'while True:\n\1z = tasks.get()\n\1logger.debug("dequeued")\n\1if z is None:\n\1    break\n'),
    V('C01-E4', 'E', ('C01', 'C09'), QS, 'SingleLane.put', r'with self\._not_full:', 'with self._not_full:  # lock', ),
    # ------------------------------------------------------------------ C16
    V('C16-M1', 'M', ('C16',), ST, 'async_fifo_stream.feed', r't = asyncio\.Future\(\)\n(\s+)t\.set_exception\(e\)', r'fut = asyncio.Future()\n\1fut.set_exception(e)', ('C16-1a', 'C16-2'), note='D1 shape'),
    V('C16-M2', 'M', ('C16',), ST, 'async_fifo_stream', r'yield x, y', 'yield y, x', ('C16-1c', 'C16-2')),
    V('C16-M3', 'M', ('C16',), SV, 'AsyncServer.stream', r'backpressure=False', 'backpressure=True', ('C16-3',)),
    V('C16-M4', 'M', ('C16',), SA, 'AsyncParmapper.__aiter__', r'return_exceptions=self\._return_exceptions', 'return_exceptions=True', ('C16-3',)),
    V('C16-M5', 'M', ('C16',), ST, 'async_fifo_stream.feed', r'except \(Exception, StopRequested\) as e:\n(\s+)await tasks\.put\(e\)', r'except Exception as e:\n\1await tasks.put(e)', ('C16-2',)),
    V('C16-M6', 'M', ('C16',), ST, 'async_fifo_stream', r'if return_exceptions:\n(\s+)y = e\n(\s+)else:\n\s+raise\n(\s+)if return_x:\n\s+yield x, y', r'if return_exceptions:\n\1y = e\n\2else:\n\1raise\n\3if return_x:\n\1yield x, repr(y)', ('C16-1c', 'C16-2')),
    V('C16-E1', 'E', ('C16', 'C05', 'C01'), ST, 'async_fifo_stream.feed', r'\bxx\b', 'elem', count=0),
    # ------------------------------------------------------------------ C02
    V('C02-M1', 'M', ('C02',), SV, 'Server._enqueue', r'(\s+)pipeline\[uid\] = fut\n(\s+)self\._input_buffer\.put\(\(uid, x\)\)', r'\1self._input_buffer.put((uid, x))\n\2pipeline[uid] = fut', ('C02-3',)),
    V('C02-M2', 'M', ('C02',), SV, 'AsyncServer._enqueue', r'uid = next\(self\._uids\)', 'uid = id(fut)', ('C02-4',)),
    V('C02-M3', 'M', ('C02',), SL, 'EnsembleServlet._enqueue', r'            catalog\[uid\] = z\n            for q in qins:\n                q\.put\(\(uid, x\)\)\n', '            for q in qins:\n                q.put((uid, x))\n            catalog[uid] = z\n', ('C02-5',)),
    V('C02-M4', 'M', ('C02',), SL, 'EnsembleServlet._dequeue', r"z\['y'\]\[idx\] = y", "z['y'][z['n']] = y", ('C02-5',)),
    V('C02-M5', 'M', ('C02',), SL, 'EnsembleServlet._dequeue', r'catalog\.pop\(uid\)\n(\s+)try:\n(\s+)raise EnsembleError', r'pass\n\1try:\n\2raise EnsembleError', ('C02-5',)),
    V('C02-M6', 'M', ('C02',), WK, 'Worker._start_single.get_input', r'                if isinstance\(x, RemoteException\):\n                    q_out\.put\(\(uid, x\)\)\n                    continue\n\n                q_uid\.put\(uid\)\n', '                q_uid.put(uid)\n                if isinstance(x, RemoteException):\n                    q_out.put((uid, x))\n                    continue\n\n', ('C02-2',)),
    V('C02-M7', 'M', ('C02',), WK, 'Worker._start_batch', r'for u in uids:\n(\s+)q_out\.put\(\(u, err\)\)', r'for u in uids:\n\1q_out.put((uids[0], err))', ('C02-1', 'C04-4')),
    V('C02-M8', 'M', ('C02',), SV, 'Server._gather_output', r'fut = pipeline\.pop\(uid\)', 'fut = pipeline.pop(next(iter(pipeline)))', ('C02-6',)),
    V('C02-M9', 'M', ('C02',), WK, 'Worker._build_input_batches', r'(\s+)uid, x = z\n', r'\1uid = z[0] if z[1] is not None else uid\n\1x = z[1]\n', ('C02-1',), note='stale uid on one path'),
    V('C02-M10', 'M', ('C02',), SL, 'EnsembleServlet.start', r'self\._qouts\.append\(q2\)', 'self._qouts.insert(0, q2)', ('C02-5',)),
    V('C02-E1', 'E', ('C02', 'C06', 'C07', 'C04'), SV, 'Server._gather_output', r'\buid\b', 'rid', count=0),
    V('C02-E2', 'E', ('C02', 'C04', 'C11'), SL, 'EnsembleServlet._enqueue', r'(\s+)catalog = self\._uid_to_results\n', r'\1catalog = self._uid_to_results\n\1logger.debug("ensemble enqueue started")\n'),
    V('C02-E3', 'E', ('C02', 'C06', 'C07', 'C11'), SV, 'Server._enqueue', r'pipeline = self\._uid_to_futures\n', 'pipeline = self._uid_to_futures\n        ledger_size = len(pipeline)  # for logging only\n'),
    # ------------------------------------------------------------------ C04
    V('C04-M1', 'M', ('C04',), WK, 'Worker.stream', r'except Exception as e:', 'except ValueError as e:', ('C04-1',)),
    V('C04-M2', 'M', ('C04',), WK, 'Worker._start_single', r'if isinstance\(y, Exception\):\n(\s+)y = RemoteException\(y\)', r'if isinstance(y, Exception):\n\1pass', ('C04-2',)),
    V('C04-M3', 'M', ('C04',), SL, 'SwitchServlet._enqueue', r'if isinstance\(x, RemoteException\):', 'if False:', ('C04-3',)),
    V('C04-M4', 'M', ('C04',), WK, 'Worker.stream', r'return_exceptions=True', 'return_exceptions=False', ('C04-1',)),
    V('C04-M5', 'M', ('C04',), SV, 'Server._gather_output', r'if isinstance\(y, RemoteException\):\n(\s+)y = y\.exc', r'if False:\n\1y = y.exc', ('C04-5',)),
    V('C04-M6', 'M', ('C04',), WK, 'Worker._build_input_batches', r'q_out\.put\(\(uid, RemoteException\(x\)\)\)', 'q_out.put((uid, x))', ('C04-2',)),
    V('C04-M7', 'M', ('C04',), SL, 'EnsembleServlet._dequeue', r'if isinstance\(y, BaseException\):\n(\s+)y = RemoteException\(y\)', r'if isinstance(y, KeyError):\n\1y = RemoteException(y)', ('C04-2', 'C02-5')),
    V('C04-E1', 'E', ('C04', 'C09', 'C02'), WK, 'Worker._start_single.get_input', r'if isinstance\(\n\s+x, Exception\n\s+\):[^\n]*\n(\s+)x = RemoteException\(x\)', r'if isinstance(x, Exception):\n\1x = RemoteException(x)'),
    # ------------------------------------------------------------------ C05
    V('C05-M1', 'M', ('C05',), ST, 'Buffer._run_worker', r'except \(Exception, StopRequested\) as e:', 'except Exception as e:', ('C05-1',)),
    V('C05-M2', 'M', ('C05',), ST, 'fifo_stream.feed', r'\n(\s+)else:\n\s+q\.put\(None\)', r'\n\1else:\n\1    pass', ('C05-1',)),
    V('C05-M3', 'M', ('C05',), ST, 'fifo_stream', r'except BaseException:[^\n]*\n(\s+)to_stop\.set\(\)\n', r'except BaseException:\n\1pass\n', ('C05-3',)),
    V('C05-M4', 'M', ('C05',), ST, 'fifo_stream', r'except BaseException:', 'except Exception:', ('C05-3',)),
    V('C05-M5', 'M', ('C05',), ST, 'fifo_stream', r'tasks = SingleLane\(capacity \+ 1\)', 'tasks = SingleLane(1)', ('C05-4',)),
    V('C05-M6', 'M', ('C05',), ST, 'Buffer._finalize', r'while self\._worker\.is_alive\(\):.*?pass\n', 'while not tasks.empty():\n            _ = tasks.get()\n', ('C05-4',), note='D7 shape'),
    V('C05-M7', 'M', ('C05',), ST, 'Parmapper.__iter__', r'with executor:\n', 'if True:\n', ('C05-5',)),
    V('C05-M8', 'M', ('C05',), ST, 'ParmapperAsync.__iter__', r'finally:\n(\s+)to_stop\.set\(\)\n\s+worker\.join\(\)', r'finally:\n\1to_stop.set()', ('C05-5',)),
    V('C05-M9', 'M', ('C05',), SA, 'SyncIter._finalize', r'        q = self\._q\n        while self\._worker_thread\.is_alive\(\):.*?pass\n', '', ('C05-4',)),
    V('C05-M10', 'M', ('C05',), ST, 'fifo_stream', r'if isinstance\(z, \(Exception, StopRequested\)\):\n(\s+)raise z', r'if isinstance(z, Exception):\n\1raise z', ('C05-2',)),
    V('C05-M11', 'M', ('C05',), SA, 'AsyncBuffer._run_worker.main', r'(\s+)if stopped\.is_set\(\):\n\s+break\n', r'\n', ('C05-3',)),
    V('C05-M12', 'M', ('C05',), ST, 'Buffer.__iter__', r'finally:\n(\s+)self\._finalize\(\)', r'except Exception:\n\1self._finalize()\n\1raise', ('C05-3', 'C05-5')),
    V('C05-E1', 'E', ('C05', 'C08', 'C03'), ST, 'Buffer._run_worker', r'\bextern_stopped\b', 'outer_flag', count=0),
    V('C05-E2', 'E', ('C05', 'C01', 'C07', 'C08', 'C16'), ST, 'fifo_stream', r'finally:\n(\s+)while not tasks\.empty\(\):', r'finally:\n\1logger.debug("cleaning up")\n\1while not tasks.empty():'),
    # ------------------------------------------------------------------ C06 / C07
    V('C06-M1', 'M', ('C06',), SV, 'Server._enqueue', r'while len\(pipeline\) >= self\._capacity:', 'if len(pipeline) >= self._capacity:', ('C06-1',), note='D2 shape'),
    V('C06-M2', 'M', ('C06',), SV, 'AsyncServer._enqueue', r'while len\(pipeline\) >= self\._capacity:', 'while len(pipeline) > self._capacity:', ('C06-1',)),
    V('C06-M3', 'M', ('C06',), SV, 'Server._enqueue', r'raise ServerBacklogFull\(len\(pipeline\)\)\n', 'pipeline[uid] = fut\n                    raise ServerBacklogFull(len(pipeline))\n', ('C06-3', 'C06-1')),
    V('C06-M4', 'M', ('C06',), SV, 'Server._gather_output', r'(\s+)fut\.data\[.t2.\] = perf_counter\(\)\n(\s+)q_notify\.put\(1\)', r'\1fut.data["t2"] = perf_counter()\n\2if not fut.cancelled():\n\2    q_notify.put(1)', ('C06-4',)),
    V('C06-M5', 'M', ('C06',), SV, 'Server._wait_for_result', r'fut\.cancel\(\)\n', 'fut.cancel()\n            self._uid_to_futures.pop(id(fut), None)\n', ('C06-4', 'C07-3')),
    V('C06-M6', 'M', ('C06',), SV, 'Server._enqueue', r'self\._pipeline_notfull\.wait\(t\)', 'self._pipeline_notfull.wait()', ('C06-6',)),
    V('C06-M7', 'M', ('C06',), SV, 'Server._gather_output.notify', r'with pipeline_notfull:\n(\s+)pipeline_notfull\.notify\(\)', r'if True:\n\1pipeline_notfull.notify()', ('C06-4',)),
    V('C06-M8', 'M', ('C06',), SV, 'AsyncServer._gather_output', r'fut = pipeline\.pop\(uid\)', 'fut = pipeline[uid]', ('C06-4',)),
    V('C06-E1', 'E', ('C06', 'C02', 'C07'), SV, 'Server._enqueue', r'while len\(pipeline\) >= self\._capacity:', 'while not (len(pipeline) < self._capacity):'),
    V('C06-E2', 'E', ('C06', 'C02', 'C07', 'C16'), SV, 'AsyncServer._enqueue', r'\bt0\b', 'started', count=0),
    V('C07-M1', 'M', ('C07',), SV, 'Server._gather_output', r'                    try:\n                        if isinstance\(y, BaseException\):\n                            fut\.set_exception\(y\)\n                        else:\n                            fut\.set_result\(y\)\n                    except concurrent\.futures\.InvalidStateError:.*?pass\n', '                    if isinstance(y, BaseException):\n                        fut.set_exception(y)\n                    else:\n                        fut.set_result(y)\n', ('C07-1',), note='D4 shape'),
    V('C07-M2', 'M', ('C07',), SV, 'AsyncServer._gather_output', r'loop\.call_soon_threadsafe\(fut\.set_result, y\)', 'fut.set_result(y)', ('C07-1',)),
    V('C07-M3', 'M', ('C07',), SV, 'Server._gather_output', r'except KeyError:', 'except IndexError:', ('C07-2',)),
    V('C07-M4', 'M', ('C07',), ST, 'fifo_stream', r't\.cancel\(\)', 't.set_exception(RuntimeError("abandoned"))', ('C07-3',)),
    V('C07-E1', 'E', ('C07', 'C06', 'C02', 'C04'), SV, 'Server._gather_output', r'except concurrent\.futures\.InvalidStateError:', 'except (concurrent.futures.InvalidStateError, RuntimeError):'),
    # ------------------------------------------------------------------ C08
    V('C08-M1', 'M', ('C08',), ST, 'fifo_stream', r'SingleLane\(capacity \+ 1\)', 'SingleLane()', ('C08-1',)),
    V('C08-M2', 'M', ('C08',), ST, 'fifo_stream', r'SingleLane\(capacity \+ 1\)', 'SingleLane(capacity * 2 + 1)', ('C08-1',)),
    V('C08-M3', 'M', ('C08',), ST, 'Parmapper.__iter__', r'ThreadPoolExecutor\(\n(\s+)self\._concurrency,', r'ThreadPoolExecutor(\n\1self._concurrency * 2,', ('C08-3',)),
    V('C08-M4', 'M', ('C08',), ST, 'Parmapper.__init__', r'self\._concurrency \* 2', 'self._concurrency * 4', ('C08-3',)),
    V('C08-M5', 'M', ('C08',), ST, 'Buffer._run_worker', r'q\.put\(x\)  # if `q` is full, will wait here', 'q.put(x, timeout=5)', ('C08-2',)),
    V('C08-M6', 'M', ('C08',), ST, 'Buffer._start', r'SingleLane\(self\.maxsize\)', 'SingleLane(self.maxsize - 1)', ('C08-1',)),
    V('C08-M7', 'M', ('C08',), SA, 'AsyncParmapper.__aiter__', r'capacity=self\._concurrency \* 2', 'capacity=self._concurrency * 8', ('C08-3',)),
    V('C08-E1', 'E', ('C08', 'C05', 'C01'), ST, 'fifo_stream', r'tasks = SingleLane\(capacity \+ 1\)', 'qsize = capacity + 1\n    tasks = SingleLane(qsize)'),
    # ------------------------------------------------------------------ C09 / C19
    V('C09-M1', 'M', ('C09',), WK, 'Worker._get_input_batch', r'while n < batchsize:', 'while n <= batchsize:', ('C09-2',)),
    V('C09-M2', 'M', ('C09',), WK, 'Worker._get_input_batch', r'out\.append\(z\)\n\s+n \+= 1', 'out.append(z)', ('C09-2',)),
    V('C09-M3', 'M', ('C09',), WK, 'Worker._get_input_batch', r'z = buffer\.get\(timeout=max\(0, t\)\)', 'z = buffer.get()', ('C09-4',)),
    V('C09-M4', 'M', ('C09',), WK, 'Worker._get_input_batch', r'(\s+)out = buffer\.get\(\)\n', r'\1deadline = perf_counter() + self.batch_wait_time\n\1out = buffer.get()\n', ('C09-4',), note='deadline before first get (second def shadows)'),
    V('C09-M5', 'M', ('C09',), WK, 'Worker._get_input_batch', r'if z is None:\n(.*?)break\n(\s+)out\.append\(z\)', r'out.append(z)\n\2if z is None:\n\1break', ('C09-1',)),
    V('C09-M6', 'M', ('C09',), WK, 'Worker._build_input_batches', r'                        elif isinstance\(x, RemoteException\):\n                            q_out\.put\(\(uid, x\)\)\n', '', ('C09-1',)),
    V('C09-M7', 'M', ('C09',), WK, 'Worker._build_input_batches', r'with buffer\._not_full:\n(.*?)if buffer\.full\(\):\n\s+buffer\._not_full\.wait\(\)', r'if buffer.full():\n                with buffer._not_full:\n                    buffer._not_full.wait()', ('C09-6',), note='D10 shape'),
    V('C09-M8', 'M', ('C09',), WK, 'Worker._build_input_batches', r'(\s+)else:\n(\s+)buffer\.put\(\(uid, x\)\)', r'\1else:\n\2buffer.put((uid, x))\n\2q_out.put((uid, x))', ('C09-3',)),
    V('C09-E1', 'E', ('C09', 'C02'), WK, 'Worker._get_input_batch', r'\bextra_timeout\b', 'wait_s', count=0),
    V('C19-M1', 'M', ('C19',), ST, 'EagerBatcher.__iter__', r'while n < batchsize:', 'while n <= batchsize:', ('C19-2',)),
    V('C19-M2', 'M', ('C19',), ST, 'EagerBatcher.__iter__', r'z = q_in\.get\(timeout=max\(0, t\)\)', 'z = q_in.get()', ('C19-3',)),
    V('C19-M3', 'M', ('C19',), ST, 'EagerBatcher.__iter__', r'if z is None:\n(\s+)yield batch\n(\s+)return', r'if z is None:\n\1return', ('C19-1',)),
    V('C19-M4', 'M', ('C19',), ST, 'EagerBatcher.__iter__', r'(\s+)if z == end:\n(\s+)yield batch\n\s+return\n', r'\1if False:\n\2yield batch\n\2return\n', ('C19-1',)),
    V('C19-M5', 'M', ('C19',), ST, 'EagerBatcher.__iter__', r'batch\.append\(z\)\n(\s+)n \+= 1\n\n(\s+)yield batch', r'batch.append(z)\n\1n += 1\n\n\2yield batch\n\2batch.append(None)', ('C19-4',)),
    V('C19-M6', 'M', ('C19',), ST, 'EagerBatcher.__iter__', r'except queue\.Empty:\n(\s+)break', r'except queue.Empty:\n\1continue', ('C19-3',)),
    # ------------------------------------------------------------------ C10
    V('C10-M1', 'M', ('C10',), TE, 'Fork.__next__', r'finally:\n(\s+)# Release also[^\n]*\n\s+self\.instream_lock\.release\(\)', r'finally:\n\1pass', ('C10-1',)),
    V('C10-M2', 'M', ('C10',), TE, 'Fork.__next__', r'self\.next\.next = box[^\n]*\n(\s+)self\.buffer\.put\(box\)', r'self.buffer.put(box)\n\1self.next.next = box', ('C10-3',)),
    V('C10-M3', 'M', ('C10',), TE, 'Fork.__next__', r'with box\.lock:\n(\s+)box\.n \+= 1', r'box.n += 1\n            with box.lock:\n\1pass', ('C10-5',)),
    V('C10-M4', 'M', ('C10',), TE, 'Fork.__next__', r'if not self\.instream_lock\.acquire\(timeout=0\.1\):\n\s+continue', 'self.instream_lock.acquire()', ('C10-2',), note='D8b shape'),
    V('C10-M5', 'M', ('C10',), TE, 'Fork.__next__', r'locked = self\.instream_lock\.acquire\(timeout=0\.1\)\n(\s+)if locked:\n(\s+)try:\n(\s+)if self\.next\.next is None:', r'locked = self.instream_lock.acquire(timeout=0.1)\n\1if locked:\n\2try:\n\3if True:', ('C10-4',)),
    V('C10-M6', 'M', ('C10',), TE, 'Fork.__next__', r'except StopIteration:\n(\s+)# `instream` is exhausted', r'except BaseException:\n\1# `instream` is exhausted', ('C10-6',)),
    V('C10-E1', 'E', ('C10',), TE, 'Fork.__next__', r'with box\.lock:\n(\s+)box\.n \+= 1\n(\s+)if box\.n == self\.n_forks:(.*?)self\.buffer\.get\(\)\n', lambda m: 'box.lock.acquire()\n            try:\n' + m.group(1) + 'box.n += 1\n' + m.group(2) + 'if box.n == self.n_forks:' + m.group(3) + 'self.buffer.get()\n            finally:\n                box.lock.release()\n'),
    # ------------------------------------------------------------------ C11
    V('C11-M1', 'M', ('C11',), SL, 'ProcessServlet.stop', r'self\._stop_workers\(self\._q_in\)', 'self._q_in.put(None)\n        self._workers = []', ('C11-4',)),
    V('C11-M2', 'M', ('C11',), SL, 'ThreadServlet.stop', r'self\._started = False', 'pass', ('C11-5',)),
    V('C11-M3', 'M', ('C11',), WK, 'Worker._start_single.get_input', r'                    q_in\.put\(z\)  # broadcast to one fellow worker\n', '', ('C11-6',)),
    V('C11-M4', 'M', ('C11',), SV, 'Server.__exit__', r'        if self\._onboard_thread is not None:\n.*?            self\._onboard_thread\.join\(\)\n        self\.servlet\.stop\(\)\n        self\._gather_thread\.join\(\)\n', '        self.servlet.stop()\n        self._gather_thread.join()\n        if self._onboard_thread is not None:\n            self._input_buffer.put(None)\n            self._onboard_thread.join()\n', ('C11-3',), note='D11b shape'),
    V('C11-M5', 'M', ('C11',), SL, 'SequentialServlet.start', r'try:\n(\s+)s\.start\(q1, q2\)\n\s+except BaseException:.*?raise\n', r's.start(q1, q2)\n', ('C11-1',), note='D11a shape'),
    V('C11-M6', 'M', ('C11',), SL, 'ProcessServlet.start', r'try:\n(\s+)p\.join\(\)([^\n]*)\n\s+finally:\n\s+self\._stop_workers\(q_in\)[^\n]*\n', r'p.join()\n', ('C11-1',)),
    V('C11-M7', 'M', ('C11',), SL, 'EnsembleServlet.stop', r'        for t in self\._threads:\n            t\.join\(\)\n', '', ('C11-4',)),
    V('C11-M8', 'M', ('C11',), SL, 'EnsembleServlet._dequeue', r'if v is None:\n(\s+)qout\.put\(v\)\n', r'if v is None:\n', ('C11-6',)),
    V('C11-M9', 'M', ('C11',), WK, 'Worker.run', r'except Exception:\n(\s+)q_out\.put\(None\)\n', r'except Exception:\n', ('C11-2',)),
    V('C11-M10', 'M', ('C11',), SL, 'SwitchServlet.stop', r'        self\._thread_enqueue\.join\(\)\n', '', ('C11-4',)),
    V('C11-M11', 'M', ('C11',), SL, 'ThreadServlet.start', r'(\s+)w\.start\(\)\n(\s+)name = q_out\.get\(\)', r'\1w.start()\n\1self._started = True\n\2name = q_out.get()', ('C11-5',)),
    V('C11-E1', 'E', ('C11', 'C02'), SL, 'ProcessServlet._stop_workers', r'for w in self\._workers:\n(\s+)w\.join\(\)', r'for w in self._workers:\n\1logger.debug("joining %s", w)\n\1w.join()'),
    # ------------------------------------------------------------------ C12 / C20
    V('C12-M1', 'M', ('C12',), TH, 'Thread.run', r'except BaseException as e:', 'except Exception as e:', ('C12-1',)),
    V('C12-M2', 'M', ('C12',), TH, 'Thread.run', r'if e\.code is None:\n(\s+)self\._future_\.set_result\(None\)', r'if e.code is None:\n\1pass', ('C12-1',)),
    V('C12-M3', 'M', ('C12',), CX, 'SpawnProcess.run', r'if e\.code == 0:\n(\s+)result_and_error\.send\(None\)\n\s+result_and_error\.send\(None\)', r'if e.code == 0:\n\1result_and_error.send(None)', ('C12-2',)),
    V('C12-M4', 'M', ('C12',), CX, 'SpawnProcess._collect_result', r'error = OSError\(exitcode, msg\)\n\s+error\.__cause__ = exc', 'raise OSError(exitcode, msg) from exc', ('C12-3',), note='D5 shape'),
    V('C12-M5', 'M', ('C12',), CX, 'SpawnProcess.exception', r'        self\._result_collector_thread_\.join\(\)\n', '', ('C12-4',)),
    V('C12-M6', 'M', ('C12',), MP, 'wait', r'future_to_thread\[id\(f\)\] for f in done', 'future_to_thread[hash(f)] for f in done', ('C12-5',)),
    V('C12-M7', 'M', ('C12',), CX, 'SpawnProcess.run', r'else:\n(\s+)result_and_error\.send\(z\)\n\s+result_and_error\.send\(None\)', r'else:\n\1result_and_error.send(None)\n\1result_and_error.send(z)', ('C12-2',)),
    V('C12-E1', 'E', ('C12', 'C20'), CX, 'SpawnProcess._collect_result', r'\bexitcode\b(?! is)', 'signo', count=0),
    V('C20-M1', 'M', ('C20',), CX, 'SpawnProcess._collect_result', r'(\s+)self\._result_and_error_\.close\(\)\n', r'\1self._logger_queue_.put(None)\n\1self._result_and_error_.close()\n', ('C20-1',), note='D15 shape'),
    V('C20-M2', 'M', ('C20',), CX, 'SpawnProcess.run', r'(\s+)root\.addHandler\(qh\)\n', r'\n', ('C20-2',)),
    V('C20-M3', 'M', ('C20',), CX, 'SpawnProcess.run', r'if qh is not None:\n(\s+)logging\.getLogger\(\)\.removeHandler\(qh\)\n\s+logger_queue\.close\(\)', r'if qh is not None:\n\1logging.getLogger().removeHandler(qh)', ('C20-2',)),
    V('C20-M4', 'M', ('C20',), CX, 'SpawnProcess._run_logger', r'if record\.levelno >= logger\.getEffectiveLevel\(\):', 'if record.levelno > logger.getEffectiveLevel():', ('C20-3',)),
    V('C20-M5', 'M', ('C20',), CX, 'SpawnProcess.join', r'(\s+)super\(\)\.join\(timeout=timeout\)\n', r'\1super().join(timeout=timeout)\n\1while not self._logger_queue_.empty():\n\1    self._logger_queue_.get()\n', ('C20-3',)),
    # ------------------------------------------------------------------ C13 / C14 / C15
    V('C13-M1', 'M', ('C13',), SP, 'RebuildProxy', r'if incref:\n(.*?)obj\._dispatch\(.decref.\)\n', 'pass\n', ('C13-3',)),
    V('C13-M2', 'M', ('C13',), SP, 'BaseProxy.__reduce__', r'if server:\n(\s+)server\.incref\(None, self\._token\.id\)\n\s+else:\n\s+conn = self\._Client\(self\._token\.address, authkey=self\._authkey\)\n\s+dispatch\(conn, None, .incref., \(self\._id,\)\)', r'if server:\n\1server.incref(None, self._token.id)', ('C13-2',)),
    V('C13-M3', 'M', ('C13',), SP, 'MemoryBlockProxy.__reduce__', r'func, args = super\(\)\.__reduce__\(\)\n(\s+)kwds = args\[-1\]', r'kwds = {}\n\1func, args = RebuildProxy, (type(self), self._token, self._serializer, kwds)', ('C13-2',)),
    V('C13-M4', 'M', ('C13',), SP, 'MemoryBlock._release', r'mem\.close\(\)\n\s+mem\.unlink\(\)', 'mem.close()', ('C13-5',)),
    V('C13-M5', 'M', ('C13',), SP, 'BaseProxy._incref', r'exitpriority=10,', '', ('C13-6',)),
    V('C13-M6', 'M', ('C13',), SP, 'RebuildProxy', r"incref = kwds\.pop\('incref', True\)", "incref = kwds.pop('incref', True) and not getattr(current_process(), '_inheriting', False)", ('C13-3',), note='D13 shape'),
    V('C13-M7', 'M', ('C13',), SP, 'Server.create', r'(\s+)if ident not in self\.id_to_refcount:\n\s+self\.id_to_refcount\[ident\] = 0\n', r'\n', ('C13-4',)),
    V('C14-M1', 'M', ('C14',), SP, 'BaseProxy._callmethod', r'if isinstance\(result, RemoteException\):.*?result = _rebuild_exception\(result\.exc, result\.tb\)\n', 'pass\n', ('C14-4',), note='D16 shape'),
    V('C14-M2', 'M', ('C14',), SP, 'Server._callmethod', r"msg = \('#ERROR', self\._wrap_user_exc\(e\)\)", "msg = ('#ERR', self._wrap_user_exc(e))", ('C14-1',)),
    V('C14-M3', 'M', ('C14',), SP, 'Server._callmethod', r'res = function\(\*args, \*\*kwds\)\n(\s+)except Exception as e:', r'res = function(*args, **kwds)\n\1except ValueError as e:', ('C14-2',)),
    V('C14-M4', 'M', ('C14',), SP, None, r"'remove',\n", "'remove',\n    'discard',\n", ('C14-3',)),
    V('C14-M5', 'M', ('C14',), SP, 'BaseProxy._callmethod', r'result = _rebuild_exception\(result\.exc, result\.tb\)', 'result = result.exc', ('C14-4',)),
    V('C15-M1', 'M', ('C15',), RE, 'RemoteException.__reduce__', r'\(self\.exc, self\.tb\)', '(self.exc, None)', ('C15-1',)),
    V('C15-M2', 'M', ('C15',), RE, '_rebuild_exception', r'exc\.__cause__ = RemoteTraceback\(tb\)', 'exc.__context__ = RemoteTraceback(tb)', ('C15-1',)),
    V('C15-M3', 'M', ('C15',), RE, 'RemoteException.__init__', r'tb = get_remote_traceback\(exc\)', 'tb = None', ('C15-2', 'C15-3')),
    V('C15-M4', 'M', ('C15',), RE, 'EnsembleError.__reduce__', r'self\.args\[1\]', 'self.args[0]', ('C15-5',)),
    V('C15-M5', 'M', ('C15',), RE, 'get_remote_traceback', r'e\.__cause__\.tb', 'str(e.__cause__.args)', ('C15-4',)),
    # ------------------------------------------------------------------ C17 / C18 / C03
    V('C17-M1', 'M', ('C17',), QU, 'IterableQueue.__next__', r'with self\._lids_lock:', 'if True:', ('C17-1',), note='D14 shape'),
    V('C17-M2', 'M', ('C17',), QU, 'IterableQueue.renew', r'range\(self\._num_suppliers\)', 'range(self._num_suppliers - 1)', ('C17-2',)),
    V('C17-M3', 'M', ('C17',), QU, 'ResponsiveQueue._get_put', r'if stop_requested\.is_set\(\):\n\s+raise StopRequested', 'pass', ('C17-3',)),
    V('C17-M4', 'M', ('C17',), QU, 'IterableQueue.put_end', r'self\._applied_lids\.put\(z\)\n', 'self._applied_lids.put(z)\n        self._applied_lids.put(z)\n', ('C17-2',)),
    V('C17-M5', 'M', ('C17',), QU, 'IterableQueue.__getstate__', r'self\._lids_lock,\n', '', ('C17-1',)),
    V('C18-M1', 'M', ('C18',), SO, 'write_record', r'\{request_id\} \{len\(data_bytes\)\} \{encoder\}', '{len(data_bytes)} {request_id} {encoder}', ('C18-1',)),
    V('C18-M2', 'M', ('C18',), SO, 'write_record', r'len\(data_bytes\)', 'len(data)', ('C18-1',)),
    V('C18-M3', 'M', ('C18',), SO, 'read_record', r'readexactly\(int\(num_bytes\)\)', 'read(int(num_bytes))', ('C18-1',)),
    V('C18-M4', 'M', ('C18',), SO, 'SocketClient._open_connections._keep_sending', r'(\s+)active\[req_id\] = fut', r'\1await asyncio.sleep(0)\n\1active[req_id] = fut', ('C18-4',)),
    V('C18-M5', 'M', ('C18',), PI, 'Client.__init__', r"path \+ '\.2', path \+ '\.1'", "path + '.1', path + '.2'", ('C18-8',)),
    V('C18-M6', 'M', ('C18',), SO, 'decode', r'pickle_loads\(data\)', 'data', ('C18-2',)),
    V('C18-M7', 'M', ('C18',), SO, 'SocketServer._handle_connection._keep_responding', r'except Exception as e:\n(\s+)z = RemoteException\(e\)', r'except ValueError as e:\n\1z = RemoteException(e)', ('C18-6',)),
    V('C18-M8', 'M', ('C18',), SO, 'SocketServer._handle_connection._keep_receiving', r'(\s+)f = self\.app\.handle_request\(path, data\)\n(\s+)t = asyncio\.create_task\(f\)', r'\1f = self.app.handle_request(path, data)\n\2t = asyncio.create_task(f) if data is not None else t', ('C18-3',)),
    V('C03-M1', 'M', ('C03',), ST, 'Mapper.__init__', r'self\._instream = instream', 'self._instream = list(instream)', ('C03-1',)),
    V('C03-M2', 'M', ('C03',), ST, 'Mapper.__iter__', r'for v in self\._instream:\n\s+yield func\(v\)', 'yield from [func(v) for v in self._instream]', ('C03-2',)),
    V('C03-M3', 'M', ('C03',), ST, 'Stream.peek.Peeker.__call__', r"self\._print_func\(f'\{x\}\{self\._suffix\}'\)\n(\s+)return x\n(\s+)trace = ''", r"self._print_func(f'{x}{self._suffix}')\n\1return None\n\2trace = ''", ('C03-4',)),
    V('C03-M4', 'M', ('C03',), ST, 'Batcher.__iter__', r'yield batch\n(\s+)batch = \[\]', r'yield batch\n\1batch.clear()', ('C03-5',)),
    V('C03-M5', 'M', ('C03',), ST, 'Stream.head', r'Header\(self\.streamlets\[-1\], n\)', 'Header(self.streamlets[0], n)', ('C03-3',)),
    V('C03-M6', 'M', ('C03',), ST, 'Filter.__iter__', r'yield v', 'yield func(v)', ('C03-2',)),
    V('C03-E1', 'E', ('C03',), ST, 'Mapper.__iter__', r'\bv\b', 'elem', count=0),
    V('C03-M7', 'M', ('C03',), ST, 'Batcher.__iter__', r'batch\.append\(x\)\n(\s+)if len\(batch\) == batch_size:\n(\s+)yield batch\n\s+batch = \[\]\n\s+if batch:\n\s+yield batch', r'if len(batch) == batch_size:\n\2yield batch\n\2batch = []\n\1batch.append(x)\n        yield batch', ('C03-6',), note='seeded C03-m2 shape: empty batch for empty input'),
    V('C03-M8', 'M', ('C03',), ST, 'Batcher.__iter__', r'\n        if batch:\n            yield batch', '', ('C03-6',), note='no final flush'),
    V('C03-M9', 'M', ('C03',), ST, 'Header.__iter__', r'if n >= nn:', 'if n > nn:', ('C03-6',)),
    V('C03-M10', 'M', ('C03',), SA, 'AsyncHeader.__aiter__', r'if n >= self\.n:', 'if n > self.n:', ('C03-6',)),
    V('C03-M11', 'M', ('C03',), ST, 'Tailer.__iter__', r'deque\(maxlen=self\.n\)', 'deque(maxlen=self.n - 1)', ('C03-6',)),
    V('C03-M12', 'M', ('C03',), ST, 'Shuffler.__iter__', r'\n\s+yield y\n', '\n', ('C03-6',), note='displaced element lost'),
    V('C03-M13', 'M', ('C03',), ST, 'Buffer.__iter__', r'(\n(\s+))yield z\n', r'\1if z:\1    yield z\n', ('C03-7',), note='falsy elements dropped'),
    V('C03-M14', 'M', ('C03',), ST, 'Buffer.__iter__', r'z = tasks\.get\(\)\n', 'try:\n                    z = tasks.get(timeout=0.1)\n                except queue.Empty:\n                    if not self._worker.is_alive():\n                        break\n                    continue\n', ('C03-7',), note='seeded C03-m1 shape'),
    V('C03-M15', 'M', ('C03',), ST, 'Buffer._run_worker', r'(\n(\s+))q\.put\(x\)  # if', r'\1if x is not None:\1    q.put(x)  # if', ('C03-7',)),
    V('C03-M16', 'M', ('C03',), SA, 'AsyncBatcher.__aiter__', r'if batch:\n(\s+)yield batch', r'if len(batch) == batch_size:\n\1yield batch', ('C03-6',), note='partial last batch dropped'),
    V('C03-M17', 'M', ('C03',), ST, 'Shuffler.__iter__', r'if buffer:\n\s+random\.shuffle\(buffer\)\n\s+yield from buffer', 'random.shuffle(buffer)', ('C03-6',), note='reservoir never flushed'),
    V('C03-M18', 'M', ('C03',), ST, 'Header.__iter__', r'n = 0\n', 'n = 1\n', ('C03-6',)),
    V('C03-M19', 'M', ('C03',), SA, 'SyncIter.__iter__', r'yield x\n(\s+)finally', r'yield x\n                    x = q.get()\n\1finally', ('C03-7',), note='every other element skipped'),
    V('C03-M20', 'M', ('C03',), SA, 'AsyncUnbatcher.__aiter__', r'if isiterable\(x\):\n(\s+)for y in x:\n(\s+)yield y\n(\s+)else:\n\s+async for y in x:\n\s+yield y', r'if isiterable(x):\n\1for y in x:\n\2yield y', ('C03-6',), note='async batches dropped'),
    V('C03-E2', 'E', ('C03',), ST, 'Batcher.__iter__', r'if len\(batch\) == batch_size:', 'if len(batch) >= batch_size:'),
    V('C03-E3', 'E', ('C03',), ST, 'Batcher.__iter__', r'if batch:\n(\s+)yield batch', r'if len(batch) > 0:\n\1yield batch'),
    V('C03-E4', 'E', ('C03',), ST, 'Tailer.__iter__', r'yield from data', 'for v in data:\n            yield v'),
    V('C03-E5', 'E', ('C03',), ST, 'Shuffler.__iter__', r'if buffer:\n(\s+)random\.shuffle\(buffer\)\n\s+yield from buffer', r'random.shuffle(buffer)\n        yield from buffer', note='flushing an empty reservoir yields nothing'),
]

# ---------------------------------------------------------------------- generic equivalent rewrites
# (applied to whole modules; every property must stay silent)
_MODS = [ST, SA, SV, SL, WK, QS, TE, CX, TH, MP, SP, RE, QU, SO, PI]
for _i, _m in enumerate(_MODS):
    # line shifts: a comment line after every def header and before every return
    VARIANTS.append(V(f'G-pad-{_i:02d}', 'E', ALL, _m, None, r'(\n([ ]*)(?:async )?def [^\n]*:\n)(?=\2    [^ \n])', r'\1\2    # (comment inserted by the self-test)\n', count=0, flags=0))
    VARIANTS.append(V(f'G-ret-{_i:02d}', 'E', ALL, _m, None, r'\n([ ]+)return ', r'\n\1# about to return\n\1return ', count=0, flags=0))
    VARIANTS.append(V(f'G-w1-{_i:02d}', 'E', ALL, _m, None, r'while True:', 'while 1:', count=0, flags=0))

VARIANTS += [
    # local renames in the functions the rules look at most
    V('G-rn-01', 'E', ALL, SV, 'Server._enqueue', r'\bpipeline\b', 'ledger', count=0),
    V('G-rn-02', 'E', ALL, SV, 'AsyncServer._gather_output', r'\by\b', 'payload', count=0),
    V('G-rn-03', 'E', ALL, WK, 'Worker._build_input_batches', r'\bbuffer\b', 'buf', count=0),
    V('G-rn-04', 'E', ALL, WK, 'Worker._start_single.get_input', r'\bx\b', 'item', count=0),
    V('G-rn-05', 'E', ALL, WK, 'Worker._get_input_batch', r'\bout\b', 'batch', count=0),
    V('G-rn-06', 'E', ALL, SL, 'EnsembleServlet._dequeue', r'\bz\b', 'entry', count=0),
    V('G-rn-07', 'E', ALL, TE, 'Fork.__next__', r'\bbox\b', 'cell', count=0),
    V('G-rn-08', 'E', ALL, CX, 'SpawnProcess.run', r'\bresult_and_error\b', 'pipe_end', count=0),
    V('G-rn-09', 'E', ALL, QU, 'IterableQueue.__next__', r'\bfinished\b', 'complete', count=0),
    V('G-rn-10', 'E', ALL, ST, 'Buffer.__iter__', r'\btasks\b', 'q', count=0),
    V('G-rn-11', 'E', ALL, ST, 'EagerBatcher.__iter__', r'\bbatch\b', 'chunk', count=0),
    V('G-rn-12', 'E', ALL, SO, 'SocketClient.stream._enqueue', r'\btt\b', 'outq', count=0),
    V('G-rn-13', 'E', ALL, SP, 'RebuildProxy', r'\bobj\b', 'proxy', count=0),
    V('G-rn-14', 'E', ALL, RE, 'RemoteException.__init__', r'(?<![.\w])tb\b', 'text', count=0, note='the traceback parameter / local renamed throughout the constructor'),
    V('G-rn-15', 'E', ALL, SA, 'AsyncBuffer._run_worker.main', r'\bq\b', 'outq', count=0),
    V('G-rn-16', 'E', ALL, ST, 'async_fifo_stream', r'\bcancelled_tasks\b', 'pending', count=0),
    # small behaviour-preserving restructurings
    V('G-eq-01', 'E', ALL, SV, 'Server._enqueue', r'uid = next\(self\._uids\)\n', 'uid = next(self._uids)\n        cap = self._capacity  # noqa\n'),
    V('G-eq-02', 'E', ALL, SV, 'Server._gather_output', r'if z is None:\n(\s+)break\n(\s+)uid, y = z', r'if z is not None:\n\1pass\n\2else:\n\1break\n\2uid, y = z'),
    V('G-eq-03', 'E', ALL, WK, 'Worker._start_single', r'uid = q_uid\.get\(\)\n(\s+)q_out\.put\(\(uid, y\)\)', r'uid = q_uid.get()\n\1msg = (uid, y)\n\1q_out.put(msg)'),
    V('G-eq-04', 'E', ALL, ST, 'Buffer._finalize', r'tasks = self\._tasks\n', 'tasks = self._tasks\n        worker = self._worker\n'),
    V('G-eq-05', 'E', ALL, SL, 'ProcessServlet.start', r"logger\.debug\('   \.\.\. worker <%s> is ready', name\)", "logger.info('   ... worker <%s> is ready', name)"),
    V('G-eq-06', 'E', ALL, CX, 'SpawnProcess._collect_result', r'time\.sleep\(0\.001\)', 'time.sleep(0.002)', count=0),
    V('G-eq-07', 'E', ALL, QS, 'SingleLane.get', r'z = self\._queue\.popleft\(\)\n(\s+)self\._not_full\.notify\(\)', r'item = self._queue.popleft()\n\1self._not_full.notify()\n\1z = item'),
    V('G-eq-08', 'E', ALL, TE, 'Fork.__next__', r'if not self\.instream_lock\.acquire\(timeout=0\.1\):\n(\s+)continue', r'got = self.instream_lock.acquire(timeout=0.1)\n                    if not got:\n\1continue'),
    V('G-eq-09', 'E', ALL, ST, 'fifo_stream.feed', r'if to_stop\.is_set\(\):\n(\s+)break', r'if not to_stop.is_set():\n\1pass\n                else:\n\1break'),
    V('G-eq-10', 'E', ALL, QU, 'ResponsiveQueue._get_put', r'if stop_requested\.is_set\(\):\n(\s+)raise StopRequested', r'if not stop_requested.is_set():\n\1continue\n                raise StopRequested'),
    V('G-eq-11', 'E', ALL, SV, 'AsyncServer._enqueue', r'async with self\._pipeline_notfull:', 'cond = self._pipeline_notfull\n        async with cond:'),
    V('G-eq-12', 'E', ALL, SP, 'BaseProxy._incref', r'exitpriority=10', 'exitpriority=5'),
    V('G-eq-13', 'E', ALL, SO, 'read_record', r"request_id, num_bytes, encoder = data\[:-1\]\.decode\(\)\.split\(\)", "header = data[:-1].decode()\n    request_id, num_bytes, encoder = header.split()"),
]

# ---------------------------------------------------------------------- plausible maintenance edits that keep every property
VARIANTS += [
    V('G-mt-01', 'E', ALL, SV, 'Server._enqueue', r"(\n        fut\.data\['t1'\] = perf_counter\(\)\n)", r"\1        logger.debug('request %s admitted; backlog %d', uid, len(pipeline))\n"),
    V('G-mt-02', 'E', ALL, SV, 'Server.call', r'fut = self\._enqueue\(x, timeout, backpressure\)', 'if timeout <= 0:\n            raise ValueError("timeout must be positive")\n        fut = self._enqueue(x, timeout, backpressure)'),
    V('G-mt-03', 'E', ALL, SV, 'Server._gather_output', r"(\n                fut\.data\['t2'\] = perf_counter\(\)\n)", r"\1                fut.data['gathered'] = True\n"),
    V('G-mt-04', 'E', ALL, WK, 'Worker._start_single', r'(\n        q_uid = queue\.SimpleQueue\(\)\n)', r'\1        n_done = 0\n'),
    V('G-mt-05', 'E', ALL, WK, 'Worker._start_batch', r'if batch_size_log_cadence and n_batches == 0:', 'if batch_size_log_cadence and (n_batches == 0):'),
    V('G-mt-06', 'E', ALL, SL, 'EnsembleServlet._dequeue', r"(\n                    z\['n'\] \+= 1\n)", r"\1                    logger.debug('ensemble member %d answered request %s', idx, uid)\n"),
    V('G-mt-07', 'E', ALL, SL, 'ThreadServlet.start', r"logger\.info\('adding worker <%s> in thread \.\.\.', sname\)", "logger.info('adding worker <%s> in a new thread ...', sname)"),
    V('G-mt-08', 'E', ALL, ST, 'fifo_stream', r'(\n    feeder\.start\(\)\n)', r"\1    logger.debug('feeder %s started', name)\n"),
    V('G-mt-09', 'E', ALL, ST, 'Buffer.__init__', r'assert 1 <= maxsize <= 10_000', 'assert 1 <= maxsize <= 100_000'),
    V('G-mt-10', 'E', ALL, ST, 'Parmapper.__iter__', r"thread_name_prefix=self\._name \+ '-thread'", "thread_name_prefix=f'{self._name}-thread'"),
    V('G-mt-11', 'E', ALL, SA, 'AsyncBuffer.__aiter__', r'await asyncio\.sleep\(0\.002\)', 'await asyncio.sleep(0.001)'),
    V('G-mt-12', 'E', ALL, TE, 'tee', r'assert buffer_size >= 2', 'assert buffer_size >= 2, "buffer_size too small"'),
    V('G-mt-13', 'E', ALL, CX, 'SpawnProcess.handle_exception', r"print\(f'Exception in", "print(f'Unhandled exception in", flags=0),
    V('G-mt-14', 'E', ALL, CX, 'SpawnProcess.start', r"name=f'\{self\.name\}-LoggerThread'", "name=f'{self.name}-LogReaderThread'"),
    V('G-mt-15', 'E', ALL, TH, 'Thread.run', r"tb = f'\[\{threading\.current_thread\(\)\.name\}\] ' \+ tb", "tb = '[' + threading.current_thread().name + '] ' + tb"),
    V('G-mt-16', 'E', ALL, SP, 'Server._callmethod', r'(\n        try:\n            res = function\(\*args, \*\*kwds\))', r"\n        util.debug('calling %s', methodname)\1"),
    V('G-mt-17', 'E', ALL, SP, 'managed', r'server = get_server\(\)\n', 'server = get_server()\n    util.debug("managed() called")\n'),
    V('G-mt-18', 'E', ALL, RE, 'RemoteException.__init__', r"raise ValueError\(f'expecting no traceback but got: \{tb\}'\)", "raise ValueError(f'expecting no traceback object but got: {tb!r}')"),
    V('G-mt-19', 'E', ALL, QU, 'IterableQueue.put_end', r"'`put_end` is called more than `num_suppliers` times'", "'put_end() was called more often than there are suppliers'"),
    V('G-mt-20', 'E', ALL, QU, 'ResponsiveQueue._get_put', r'time_total = 3600 \* 24 if timeout is None else timeout', 'time_total = 86400 if timeout is None else timeout'),
    V('G-mt-21', 'E', ALL, SO, 'SocketClient.__init__', r'self\._shutdown_timeout = 60', 'self._shutdown_timeout = 90'),
    V('G-mt-22', 'E', ALL, SO, 'write_record', r'await writer\.drain\(\)', 'await writer.drain()\n    logger.debug("record %s written", request_id)'),
    V('G-mt-23', 'E', ALL, QS, 'SingleLane.__init__', r'self\._closed = False', 'self._closed = False\n        self._n_put = 0'),
    V('G-mt-24', 'E', ALL, WK, 'Worker._get_input_batch', r'(\n        self\._batch_get_called\.set\(\)\n)', r"\n        logger.debug('batch of %d', n)\1"),
    V('G-mt-25', 'E', ALL, SV, 'AsyncServer.call', r'fut = await self\._enqueue\(x, timeout=timeout, backpressure=backpressure\)', 'fut = await self._enqueue(x, backpressure=backpressure, timeout=timeout)'),
    V('G-mt-26', 'E', ALL, ST, 'Stream.map', r'self\.streamlets\.append\(Mapper\(self\.streamlets\[-1\], func, \*\*kwargs\)\)', 'mapper = Mapper(self.streamlets[-1], func, **kwargs)\n        self.streamlets.append(mapper)'),
    V('G-mt-27', 'E', ALL, SL, 'SequentialServlet.stop', r'for s in self\._servlets:\n(\s+)s\.stop\(\)', r'for member in self._servlets:\n\1member.stop()'),
    V('G-mt-28', 'E', ALL, PI, '_Pipe.send', r'self\._writer\.send\(obj\)', 'w = self._writer\n        w.send(obj)'),
]


# ---------------------------------------------------------------------- refactor-level rewrites that keep every property
def _block(m, body_group, by):
    """re-indent the captured block by `by` spaces"""
    out = []
    for ln in m.group(body_group).splitlines(keepends=True):
        out.append((' ' * by + ln) if ln.strip() else ln)
    return ''.join(out)


def _with_to_acquire(m):
    ind = m.group('ind')
    lock = m.group('lock')
    return f'{ind}{lock}.acquire()\n{ind}try:\n{m.group("body")}{ind}finally:\n{ind}    {lock}.release()\n'


_WITH = r'(?P<ind>[ ]+)with (?P<lock>%s):\n(?P<body>(?:(?P=ind)    [^\n]*\n|[ ]*\n)+)'

VARIANTS += [
    V('G-rf-01', 'E', ALL, SV, 'Server._enqueue', _WITH % r'self\._pipeline_notfull', _with_to_acquire, flags=0, note='with -> acquire/try/finally'),
    V('G-rf-02', 'E', ALL, SV, 'Server._gather_output', r'uid, y = z\n', 'uid = z[0]\n                y = z[1]\n'),
    V('G-rf-03', 'E', ALL, SV, 'Server._gather_output', r'if not fut\.cancelled\(\):', 'abandoned = fut.cancelled()\n                if not abandoned:'),
    V('G-rf-04', 'E', ALL, SV, 'Server._enqueue', r'while len\(pipeline\) >= self\._capacity:', 'while not (len(pipeline) < self._capacity):'),
    V('G-rf-05', 'E', ALL, SV, 'Server._enqueue', r'if t <= 0 or not self\._pipeline_notfull\.wait\(t\):\n(\s+)(raise ServerBacklogFull\(len\(pipeline\), perf_counter\(\) - t0\))', r'if t <= 0:\n\1\2\n                if not self._pipeline_notfull.wait(t):\n\1\2'),
    V('G-rf-06', 'E', ALL, WK, 'Worker._start_single.get_input', r'q_in\.put\(z\)  # broadcast to one fellow worker\n(\s+)q_out\.put\(z\)\n\s+break', r'q_in.put(None)\n\1q_out.put(None)\n\1return'),
    V('G-rf-07', 'E', ALL, WK, 'Worker._start_single', r'uid = q_uid\.get\(\)\n\s+q_out\.put\(\(uid, y\)\)', 'q_out.put((q_uid.get(), y))'),
    V('G-rf-08', 'E', ALL, WK, 'Worker._start_batch', r'for z in zip\(uids, yy\):\n(\s+)q_out\.put\(z\)', r'for u, y in zip(uids, yy):\n\1q_out.put((u, y))'),
    V('G-rf-09', 'E', ALL, WK, 'Worker._build_input_batches', r'if isinstance\(x, Exception\):\n(\s+)q_out\.put\(\(uid, RemoteException\(x\)\)\)\n(\s+)elif isinstance\(x, RemoteException\):', r'if isinstance(x, Exception):\n\1x = RemoteException(x)\n\2if isinstance(x, RemoteException):'),
    V('G-rf-10', 'E', ALL, WK, 'Worker._get_input_batch', r'while n < batchsize:', 'while len(out) < batchsize:'),
    V('G-rf-11', 'E', ALL, ST, 'fifo_stream.feed', r'(?P<ind>[ ]+)for x in instream:\n(?P<body>(?:(?P=ind)    [^\n]*\n|[ ]*\n)+)', lambda m: f'{m.group("ind")}it = iter(instream)\n{m.group("ind")}while True:\n{m.group("ind")}    try:\n{m.group("ind")}        x = next(it)\n{m.group("ind")}    except StopIteration:\n{m.group("ind")}        break\n{m.group("body")}', flags=0, note='for -> while/next'),
    V('G-rf-12', 'E', ALL, ST, 'fifo_stream', r'x, fut = z\n', 'x = z[0]\n            fut = z[1]\n'),
    V('G-rf-13', 'E', ALL, ST, 'fifo_stream', r'if isinstance\(z, \(Exception, StopRequested\)\):\n(\s+)raise z', r'if isinstance(z, BaseException):\n\1raise z'),
    V('G-rf-14', 'E', ALL, ST, 'Buffer._run_worker', r'if stopped\.is_set\(\):\n(\s+)break\n\s+if extern_stopped is not None and extern_stopped\.is_set\(\):\n\s+break', r'if stopped.is_set() or (extern_stopped is not None and extern_stopped.is_set()):\n\1break'),
    V('G-rf-15', 'E', ALL, ST, 'Buffer.__iter__', r'raise tasks\.get\(\)', 'exc = tasks.get()\n                    raise exc'),
    V('G-rf-16', 'E', ALL, ST, 'Batcher.__iter__', r'if len\(batch\) == batch_size:', 'if len(batch) >= batch_size:'),
    V('G-rf-17', 'E', ALL, ST, 'Header.__iter__', r'if n >= nn:\n(\s+)break\n(\s+)yield v\n\s+n \+= 1', r'if n < nn:\n\1yield v\n\1n += 1\n\1continue\n\2break'),
    V('G-rf-18', 'E', ALL, ST, 'Unbatcher.__iter__', r'yield from x', 'for y in x:\n                yield y'),
    V('G-rf-19', 'E', ALL, ST, 'Mapper.__iter__', r'yield func\(v\)', 'y = func(v)\n            yield y'),
    V('G-rf-20', 'E', ALL, ST, 'EagerBatcher.__iter__', r'if end is None:\n\s+if z is None:\n\s+break\n\s+else:\n\s+if z == end:\n(\s+)break', r'if (z is None) if end is None else (z == end):\n\1break', count=1),
    V('G-rf-21', 'E', ALL, TE, 'Fork.__next__', r'locked = self\.instream_lock\.acquire\(timeout=0\.1\)\n(\s+)if locked:', r'if self.instream_lock.acquire(timeout=0.1):'),
    V('G-rf-22', 'E', ALL, TE, 'Fork.__next__', r'(\n(\s+)box\.n \+= 1\n)\s+if box\.n == self\.n_forks:', r'\1\2last = box.n == self.n_forks\n\2if last:'),
    V('G-rf-23', 'E', ALL, QU, 'IterableQueue.__next__', r'if finished:\n(?:\s+#[^\n]*\n)*\s+self\.put\(None\)\n(?:\s+#[^\n]*\n)*\s+raise StopIteration\n\s+if exhausted:', r'if finished or exhausted:'),
    V('G-rf-24', 'E', ALL, QU, 'IterableQueue.__iter__', r'while True:\n\s+try:\n\s+yield self\.__next__\(\)\n\s+except StopIteration:\n\s+break', 'while True:\n            try:\n                z = self.__next__()\n            except StopIteration:\n                return\n            yield z'),
    V('G-rf-25', 'E', ALL, QU, 'IterableQueue.renew', r'for _ in range\(self\._num_suppliers\):\n(\s+)z = self\._used_lids\.get\(\)\n\s+self\._spare_lids\.put\(z\)', r'for _ in range(self._num_suppliers):\n\1self._spare_lids.put(self._used_lids.get())'),
    V('G-rf-26', 'E', ALL, CX, 'SpawnProcess._collect_result', r'if error is not None:\n(\s+)self\._future_\.set_exception\(error\)\n(\s+)else:\n\s+self\._future_\.set_result\(result\)', r'if error is None:\n\1self._future_.set_result(result)\n\2else:\n\1self._future_.set_exception(error)'),
    V('G-rf-27', 'E', ALL, SP, 'Server.incref', r'self\.id_to_refcount\[ident\] \+= 1', 'self.id_to_refcount[ident] = self.id_to_refcount[ident] + 1'),
    V('G-rf-28', 'E', ALL, SP, 'Server.create', r'if ident not in self\.id_to_refcount:\n(\s+)self\.id_to_refcount\[ident\] = 0', r'self.id_to_refcount.setdefault(ident, 0)'),
    V('G-rf-29', 'E', ALL, SP, 'BaseProxy._decref', r'if server:\n(\s+)server\.decref\(None, token\.id\)\n(\s+)else:\n((?:\2    [^\n]*\n)+)', r'if not server:\n\3\2else:\n\1server.decref(None, token.id)\n', flags=0, note='arms swapped'),
    V('G-rf-30', 'E', ALL, SV, 'AsyncServer._gather_output', r'uid, y = z\n', 'uid = z[0]\n            y = z[1]\n'),
    V('G-rf-31', 'E', ALL, WK, 'Worker._start_single.get_input', r'uid, x = z\n', 'uid = z[0]\n                x = z[1]\n'),
    V('G-rf-32', 'E', ALL, ST, 'Buffer._finalize', r'while self\._worker\.is_alive\(\):', 'worker = self._worker\n        while worker.is_alive():'),
]


# ---------------------------------------------------------------------- rules added after the second seeding round
VARIANTS += [
    V('C06-M20', 'M', ('C06',), SV, 'Server._enqueue', r'(\n        with self\._pipeline_notfull:\n(\s+)while len\(pipeline\) >= self\._capacity:\n(?:\s+#[^\n]*\n)*)\s+if backpressure:\n\s+raise ServerBacklogFull\(len\(pipeline\)\)\n', r'\n        if backpressure and len(pipeline) >= self._capacity:\n            raise ServerBacklogFull(len(pipeline))\n\1', ('C06-7',), note='seeded C06-r2m1 shape'),
    V('C06-M21', 'M', ('C06',), SV, 'AsyncServer._enqueue', r'asyncio\.wait_for\(self\._pipeline_notfull\.wait\(\), t\)', 'asyncio.wait_for(self._pipeline_notfull.wait(), timeout * 0.99)', ('C06-8',), note='seeded C06-r2m2 shape'),
    V('C06-M22', 'M', ('C06',), SV, 'Server._enqueue', r'self\._pipeline_notfull\.wait\(t\)', 'self._pipeline_notfull.wait(timeout)', ('C06-8',)),
    V('C06-M23', 'M', ('C06',), SV, 'AsyncServer._enqueue', r'if backpressure:\n(\s+)raise ServerBacklogFull\(len\(pipeline\)\)', r'if backpressure and timeout < 1:\n\1raise ServerBacklogFull(len(pipeline))', ('C06-7',)),
    V('C06-E20', 'E', ALL, SV, 'Server._enqueue', r't = timeout \* 0\.99 - \(perf_counter\(\) - t0\)', 'elapsed = perf_counter() - t0\n                t = timeout * 0.99 - elapsed'),
    V('C04-M20', 'M', ('C04', 'C15'), RE, 'RemoteException.__init__', r'if isinstance\(z\[i\], BaseException\):', 'if isinstance(z[i], BaseException) and z[i].__traceback__ is not None:', ('C04-7', 'C15-5'), note='seeded C04-r2m1 shape'),
    V('C15-M20', 'M', ('C15', 'C04'), RE, 'RemoteException.__init__', r'if isinstance\(exc, EnsembleError\):', 'if isinstance(exc, EnsembleError) and exc.__traceback__ is None:', ('C15-5', 'C04-7'), note='seeded C15-m1 shape'),
    V('C15-M21', 'M', ('C15',), RE, '_rebuild_exception', r'(\n    )exc\.__cause__ = RemoteTraceback\(tb\)', r'\1if exc.__cause__ is None:\1    exc.__cause__ = RemoteTraceback(tb)', ('C15-1',), note='seeded C15-m2 shape'),
    V('C15-E20', 'E', ALL, RE, 'RemoteException.__init__', r'if isinstance\(z\[i\], BaseException\):', 'if isinstance(z[i], (BaseException, RemoteTraceback)):', note='wider class tuple'),
    V('C04-M21', 'M', ('C04', 'C09'), WK, 'Worker._start_single.get_input', r'if not isinstance\(x, \(Exception, RemoteException\)\):', 'if not isinstance(x, Exception):', ('C04-3', 'C09-1'), note='seeded C04-r2m2 shape'),
    V('C02-M20', 'M', ('C02', 'C04'), SL, 'SwitchServlet._enqueue', r'\n\s+if isinstance\(x, BaseException\):\n\s+x = RemoteException\(x\)', '', ('C02-7', 'C04-3'), note='seeded C02-r2m1 shape'),
    V('C05-M20', 'M', ('C05',), SA, 'SyncIter._worker', r'asyncio\.run\(main\(\)\)', 'loop = asyncio.new_event_loop()\n        try:\n            loop.run_until_complete(main())\n        finally:\n            loop.close()', ('C05-6',), note='seeded C05-r2m2 shape'),
    V('C05-E20', 'E', ALL, SA, 'AsyncBuffer._run_worker', r'asyncio\.run\(main\(\)\)', 'loop = asyncio.new_event_loop()\n        try:\n            loop.run_until_complete(main())\n        finally:\n            loop.run_until_complete(loop.shutdown_asyncgens())\n            loop.close()', note='explicit equivalent of asyncio.run'),
    V('C14-M20', 'M', ('C14',), SP, 'Server.serve_client', r'(send\(msg\)\n\s+)except Exception:', r'\1except TypeError:', ('C14-5',), note='seeded C14-m1 shape'),
    V('C14-M21', 'M', ('C14', 'C13'), SP, 'Server.create', r'if ident not in self\.id_to_refcount:\n\s+(self\.id_to_refcount\[ident\] = 0)', r'\1', ('C14-6', 'C13-4'), note='seeded C14-m2 / C13-m1 shape'),
    V('C07-M20', 'M', ('C07', 'C05'), ST, 'fifo_stream', r'tasks = SingleLane\(capacity \+ 1\)', 'tasks = SingleLane(capacity)', ('C07-5', 'C05-4'), note='seeded C07-r2m2 shape'),
]

# ---------------------------------------------------------------------- refactor-level rewrites, second batch
VARIANTS += [
    V('G-rf-33', 'E', ALL, SL, 'EnsembleServlet._dequeue', r'uid, y = v\n', 'uid = v[0]\n                    y = v[1]\n'),
    V('G-rf-34', 'E', ALL, SL, 'EnsembleServlet._dequeue', r'z = catalog\.get\(uid\)\n(\s+)if z is None:\n(?:\s+#[^\n]*\n)*(\s+)continue', r'if uid not in catalog:\n\2continue\n\1z = catalog[uid]'),
    V('G-rf-35', 'E', ALL, SL, 'EnsembleServlet._dequeue', r"z\['n'\] \+= 1", "z['n'] = z['n'] + 1"),
    V('G-rf-36', 'E', ALL, SL, 'EnsembleServlet._dequeue', r"elif z\['n'\] == nn:", "elif z['n'] >= nn:"),
    V('G-rf-37', 'E', ALL, SL, 'EnsembleServlet._enqueue', r'uid, x = z\n', 'uid = z[0]\n            x = z[1]\n'),
    V('G-rf-38', 'E', ALL, SL, 'EnsembleServlet._enqueue', r"z = (\{'y': \[None\] \* nn, 'n': 0\})\n((?:\s+#[^\n]*\n)*)\s+catalog\[uid\] = z", r'\2            catalog[uid] = \1'),
    V('G-rf-39', 'E', ALL, SL, 'SwitchServlet._enqueue', r'idx = self\.switch\(x\)\n\s+qins\[idx\]\.put\(\(uid, x\)\)', 'qins[self.switch(x)].put((uid, x))'),
    V('G-rf-40', 'E', ALL, SV, 'Server._gather_output', r'try:\n(\s+)fut = pipeline\.pop\(uid\)\n\s+except KeyError:\n((?:\s+#[^\n]*\n)*)(\s+)logger\.warning\(', r'fut = pipeline.pop(uid, None)\n                if fut is None:\n\2\3logger.warning(', note='unknown id tolerated through pop(uid, None)'),
    V('G-rf-41', 'E', ALL, QS, 'SingleLane.put', r'if 0 < self\.maxsize <= len\(self\._queue\):', 'if self.maxsize > 0 and len(self._queue) >= self.maxsize:'),
    V('G-rf-42', 'E', ALL, QS, 'SingleLane.get', r'if len\(self\._queue\) == 0:', 'if not self._queue:'),
    V('G-rf-43', 'E', ALL, QS, 'SingleLane.put', r'if not block:\n(\s+)raise Full\n\s+if not self\._not_full\.wait\(timeout=timeout\):\n\s+raise Full', r'if not block or not self._not_full.wait(timeout=timeout):\n\1raise Full'),
    V('G-rf-44', 'E', ALL, QS, 'SingleLane.get', r'(self\._not_full\.notify\(\)\n)        return z', r'\1            return z'),
    V('G-rf-45', 'E', ALL, TH, 'Thread.run', r'z = self\._target\(\*self\._args, \*\*self\._kwargs\)\n\s+self\._future_\.set_result\(z\)', 'self._future_.set_result(self._target(*self._args, **self._kwargs))'),
    V('G-rf-46', 'E', ALL, TH, 'Thread.run', r'if e\.code is None:\n(\s+)self\._future_\.set_result\(None\)\n\s+else:\n\s+if isinstance\(e\.code, int\):\n\s+if e\.code == 0:\n\s+self\._future_\.set_result\(None\)\n\s+else:\n\s+self\.handle_exception\(e\)\n\s+self\._future_\.set_exception\(e\)\n\s+else:\n\s+self\.handle_exception\(e\)\n\s+self\._future_\.set_exception\(e\)', r'if e.code is None or (isinstance(e.code, int) and e.code == 0):\n\1self._future_.set_result(None)\n            else:\n\1self.handle_exception(e)\n\1self._future_.set_exception(e)', note='SystemExit cases flattened'),
    V('G-rf-47', 'E', ALL, TH, 'Thread.join', r'if self\._future_\.exception\(\):\n(\s+)raise self\._future_\.exception\(\)', r'exc = self._future_.exception()\n        if exc:\n\1raise exc'),
]

# ---------------------------------------------------------------------- refactor-level rewrites, third batch
VARIANTS += [
    V('G-rf-48', 'E', ALL, SO, 'write_record', r"writer\.write\(f'\{request_id\} \{len\(data_bytes\)\} \{encoder\}\\n'\.encode\(\)\)", lambda m: "header = f'{request_id} {len(data_bytes)} {encoder}\\n'\n    writer.write(header.encode())"),
    V('G-rf-49', 'E', ALL, SO, 'write_record', r"writer\.write\(f'\{request_id\} \{len\(data_bytes\)\} \{encoder\}\\n'\.encode\(\)\)\n\s+writer\.write\(data_bytes\)", lambda m: "writer.write(f'{request_id} {len(data_bytes)} {encoder}\\n'.encode() + data_bytes)", note='header and payload in one write'),
    V('G-rf-50', 'E', ALL, SO, 'SocketServer._handle_connection._keep_responding', r'req_id, t = await asyncio\.wait_for\(reqs\.get\(\), 0\.1\)', 'item = await asyncio.wait_for(reqs.get(), 0.1)\n                    req_id, t = item'),
    V('G-rf-51', 'E', ALL, SO, 'SocketServer._handle_connection._keep_receiving', r'path = data\[0\]\n\s+data = data\[1\]', 'path, data = data'),
    V('G-rf-52', 'E', ALL, SO, 'SocketClient._open_connections._keep_receiving', r'if isinstance\(data, BaseException\):\n(\s+)fut\.set_exception\(data\)\n(\s+)else:\n\s+fut\.set_result\(data\)', r'if not isinstance(data, BaseException):\n\1fut.set_result(data)\n\2else:\n\1fut.set_exception(data)'),
    V('G-rf-53', 'E', ALL, CX, 'SpawnProcess.run', r'if e\.code is None:\n(\s+)result_and_error\.send\(None\)\n\s+result_and_error\.send\(None\)\n\s+else:\n\s+if isinstance\(e\.code, int\):\n\s+if e\.code == 0:\n\s+result_and_error\.send\(None\)\n\s+result_and_error\.send\(None\)\n\s+else:', r'if e.code is None or (isinstance(e.code, int) and e.code == 0):\n\1result_and_error.send(None)\n\1result_and_error.send(None)\n            else:\n                if isinstance(e.code, int):\n                    if False:\n                        pass\n                    else:', note='clean-exit cases merged'),
    V('G-rf-55', 'E', ALL, CX, 'SpawnProcess.join', r'if self\._future_\.exception\(\):\n(\s+)raise self\._future_\.exception\(\)', r'exc = self._future_.exception()\n        if exc is not None:\n\1raise exc'),
    V('G-rf-56', 'E', ALL, CX, 'SpawnProcess._collect_result', r'result, error = None, None\n', 'result = None\n        error = None\n'),
    V('G-rf-57', 'E', ALL, PI, None, r'\n([ ]+)return ', r'\n\1# result of the call\n\1return ', count=0, flags=0),
    V('G-rf-58', 'E', ALL, WK, 'Worker._start_batch.get_input', r'us = \[v\[0\] for v in batch\]\n(\s+)batch = \[v\[1\] for v in batch\]', r'us, batch = [v[0] for v in batch], [v[1] for v in batch]'),
    V('G-rf-59', 'E', ALL, WK, 'Worker._start_batch', r'uids = q_uids\.get\(\)\n(\s+)if isinstance\(yy, Exception\):', r'failed = isinstance(yy, Exception)\n\1uids = q_uids.get()\n\1if failed:'),
    V('G-rf-60', 'E', ALL, WK, 'Worker._build_input_batches', r'if buffer\.full\(\):\n(\s+)buffer\._not_full\.wait\(\)', r'while buffer.full():\n\1buffer._not_full.wait()', note='if -> while around the wait (stronger)'),
    V('G-rf-61', 'E', ALL, TE, 'Fork.__next__', r'x = next\(self\.instream\)\n(\s+)box = TeeX\(x\)\n(\s+)self\.buffer\.put\(box\)\n\s+self\.head\.value = box', r'box = TeeX(next(self.instream))\n\2self.buffer.put(box)\n\2self.head.value = box'),
    V('G-rf-62', 'E', ALL, SP, 'RebuildProxy', r"obj = func\(token, serializer, incref=incref, \*\*kwds\)", "kwds['incref'] = incref\n    obj = func(token, serializer, **kwds)"),
    V('G-rf-64', 'E', ALL, ST, 'Parmapper.__init__', r"if concurrency is None:\n\s+concurrency = _NUM_THREADS if executor == 'thread' else _NUM_PROCESSES\n\s+self\._concurrency = concurrency", "self._concurrency = concurrency if concurrency is not None else (_NUM_THREADS if executor == 'thread' else _NUM_PROCESSES)", note='default folded into one expression (correctly parenthesised)'),
    V('G-rf-63', 'E', ALL, SP, 'Server._callmethod', r"msg = \('#ERROR', self\._wrap_user_exc\(e\)\)\n\s+return msg", "return ('#ERROR', self._wrap_user_exc(e))"),
]

# ---------------------------------------------------------------------- rules added after the second seeding round (second batch)
VARIANTS += [
    V('C19-M20', 'M', ('C19',), ST, 'EagerBatcher.__iter__', r'(\n(\s+)t = deadline - time\.perf_counter\(\)\n)', r'\1\2if t <= 0:\n\2    break\n', ('C19-3',), note='seeded C19-r2m1 shape: deadline alone closes the batch'),
    V('C09-M20', 'M', ('C09',), WK, 'Worker._get_input_batch', r'(\n(\s+)t = deadline - perf_counter\(\)\n)', r'\1\2if t <= 0:\n\2    break\n', ('C09-4',)),
    V('C09-M21', 'M', ('C09',), WK, 'Worker.__init__', r'if batch_wait_time is None:\n\s+batch_wait_time = 0\.01', 'batch_wait_time = batch_wait_time or 0.01', ('C09-4',), note='seeded C09-r2m1 shape'),
    V('C19-M21', 'M', ('C19',), ST, 'EagerBatcher.__init__', r'if batch_wait_time is None:\n(\s+)if batch_size > 1:\n\s+batch_wait_time = 60\n\s+else:\n\s+batch_wait_time = 0', r'if not batch_wait_time:\n\1batch_wait_time = 60 if batch_size > 1 else 0', ('C19-3',), note='spare idea of the C19 agent'),
    V('C09-E20', 'E', ALL, WK, 'Worker.__init__', r'self\.batch_wait_time = batch_wait_time', 'self.batch_wait_time = batch_wait_time if batch_wait_time is not None else 0.01'),
    V('C12-M20', 'M', ('C12',), TH, 'Thread.run', r'(\n(\s+))e\.__cause__ = cause', r'\1if e.__cause__ is None:\1    e.__cause__ = cause', ('C12-6',), note='seeded C12-r2m2 shape'),
    V('C12-M21', 'M', ('C12',), CX, 'SpawnProcess.__init__', r'if kwargs is None:\n\s+kwargs = \{\}\n\s+else:\n\s+kwargs = dict\(kwargs\)', 'kwargs = kwargs or {}', ('C12-7',), note='seeded C12-r2m1 shape'),
    V('C12-M22', 'M', ('C12',), CX, 'SpawnProcess.__init__', r'\n\s+else:\n\s+kwargs = dict\(kwargs\)', '', ('C12-7',)),
    V('C12-E20', 'E', ALL, CX, 'SpawnProcess.__init__', r'if kwargs is None:\n\s+kwargs = \{\}\n\s+else:\n\s+kwargs = dict\(kwargs\)', 'kwargs = dict(kwargs or {})'),
    V('C12-E21', 'E', ALL, CX, 'SpawnProcess.__init__', r'kwargs = dict\(kwargs\)', 'kwargs = {**kwargs}'),
    V('C14-M22', 'M', ('C14',), SP, 'BaseProxy.__init__', r'get_server\(token\.address\)', 'get_server()', ('C14-7',), note='seeded C14-r2m2 shape'),
    V('C14-M23', 'M', ('C14',), SP, 'get_server', r'if address is None or server\.address == address:', 'if address is None or server.address:', ('C14-7',)),
    V('C15-M22', 'M', ('C15',), RE, 'is_remote_exception', r'isinstance\(e, BaseException\)', 'isinstance(e, Exception)', ('C15-4',), note='seeded C15-r2m1 shape'),
    V('C15-M23', 'M', ('C15',), RE, 'RemoteException.__init__', r'traceback\.format_exception\(type\(exc\), exc, tb\)', 'traceback.format_exception(type(exc), exc, tb, chain=False)', ('C15-3',), note='seeded C15-r2m2 shape'),
    V('C15-E21', 'E', ALL, RE, 'is_remote_exception', r'return isinstance\(e, BaseException\) and isinstance\(e\.__cause__, RemoteTraceback\)', 'return isinstance(e.__cause__, RemoteTraceback) and isinstance(e, BaseException)'),
    V('C03-M21', 'M', ('C03', 'C01'), QS, 'SingleLane.get', r'with self\._not_empty:\n\s+if len\(self\._queue\) == 0:\n\s+if not block:\n\s+raise Empty\n\s+if not self\._not_empty\.wait\(timeout=timeout\):\n\s+raise Empty\n\s+z = self\._queue\.popleft\(\)\n\s+self\._not_full\.notify\(\)', 'if len(self._queue) == 0:\n            if not block:\n                raise Empty\n            with self._not_empty:\n                if not self._not_empty.wait(timeout=timeout):\n                    raise Empty\n        with self._not_full:\n            z = self._queue.popleft()\n            self._not_full.notify()', ('C03-8', 'C01-4'), note='seeded C03-r2m2 shape: emptiness tested before the lock'),
    V('C03-M22', 'M', ('C03',), ST, 'Mapper.__iter__', r'func = self\.func\n\s+for v in self\._instream:\n\s+yield func\(v\)', 'yield from map(self.func, self._instream)', ('C03-2',), note='seeded C03-r2m1 shape'),
    V('C09-M22', 'M', ('C09',), WK, 'Worker._start_single.get_input', r'(\n(\s+)q_uid\.put\(uid\)\n)', r'\n\2if preprocess is not None:\n\2    x = preprocess(x)\1', ('C09-1',), note='a value returned by preprocess reaches call unscreened'),
]

# ---------------------------------------------------------------------- consistent renames of private functions (rename tolerance, mpsa/anchors.py)
VARIANTS += [
    V('G-fn-01', 'E', ALL, WK, None, r'_start_single', '_run_single', count=0, flags=0),
    V('G-fn-02', 'E', ALL, WK, None, r'_build_input_batches', '_collect_batches', count=0, flags=0),
    V('G-fn-03', 'E', ALL, WK, None, r'_get_input_batch\b', '_take_batch', count=0, flags=0),
    V('G-fn-04', 'E', ALL, SV, None, r'_gather_output', '_collect_output', count=0, flags=0),
    V('G-fn-05', 'E', ALL, ST, None, r'\bfeed\b', 'feeder_main', count=0, flags=0),
    V('G-fn-06', 'E', ALL, ST, None, r'_run_worker', '_produce', count=0, flags=0),
    V('G-fn-07', 'E', ALL, CX, None, r'_collect_result', '_gather_result', count=0, flags=0),
    V('G-fn-08', 'E', ALL, CX, None, r'_run_logger', '_pump_logs', count=0, flags=0),
    V('G-fn-09', 'E', ALL, QU, None, r'_get_put', '_timed_op', count=0, flags=0),
    V('G-fn-10', 'E', ALL, SO, None, r'_keep_responding', '_respond_loop', count=0, flags=0),
    V('G-fn-11', 'E', ALL, SL, None, r'\b_dequeue\b', '_route_results', count=0, flags=0),
    V('G-fn-12', 'E', ALL, SA, None, r'_finalize', '_shutdown', count=0, flags=0),
    V('G-fn-13', 'E', ALL, SP, None, r'\b_wrap_user_exc\b', '_pack_user_error', count=0, flags=0),
    V('G-fn-14', 'E', ALL, RE, None, r'_rebuild_exception', '_restore_exception', count=0, flags=0, note='cross-module reference in server_process.py is not renamed by this variant: the variant only edits one file'),
    V('G-fn-15', 'E', ALL, TE, None, r'\bTeeX\b', 'Cell', count=0, flags=0, note='class rename'),
    V('G-fn-16', 'E', ALL, SV, None, r'\b_wait_for_result\b', '_await_outcome', count=0, flags=0),
    V('G-fn-17', 'E', ALL, CX, None, r'\b_close_logger\b', '_drain_logger', count=0, flags=0),
]

VARIANTS += [
    V('C11-M20', 'M', ('C11',), WK, 'Worker.start', r'(\n        )try:\n(\s+)if self\.batch_size > 1:', r'\1if self.cpu_affinity is not None:\1    os.sched_setaffinity(0, self.cpu_affinity)\1try:\n\2if self.batch_size > 1:', ('C11-7',), note='seeded C11-r2m1 shape'),
    V('C11-M21', 'M', ('C11',), WK, 'Worker.run', r'(\n        )obj\.start\(q_in=q_in, q_out=q_out\)', r'\1obj.warm_up()\1obj.start(q_in=q_in, q_out=q_out)', ('C11-7',)),
    V('C11-E20', 'E', ALL, WK, 'Worker.start', r'(\n        )try:\n(\s+)if self\.batch_size > 1:', r'\1try:\n\2logger.debug("worker %s enters its service loop", self.name)\n\2if self.batch_size > 1:'),
]


# ---------------------------------------------------------------------- extract-method refactors (helper inlining, mpsa/normalize.py)
def _extract(old: str, call: str, helper: str, before: str):
    """whole-file edit: replace the text `old` by `call` and insert `helper` (source of a new def) before the line `before`"""
    def pat():
        return re.escape(old)
    return old, call, helper, before


def _xm(vid, module, old, call, helper, before, note=''):
    # two substitutions in one regex pass: (old block) | (anchor line before which the helper goes)
    pattern = '(?P<blk>' + re.escape(old) + ')|(?P<anc>' + re.escape(before) + ')'

    def repl(m, call=call, helper=helper):
        if m.group('blk') is not None:
            return call
        return helper + m.group('anc')

    return V(vid, 'E', ALL, module, None, pattern, repl, count=0, flags=0, note=note or 'extract method')


VARIANTS += [
    _xm('G-xm-01', SV,
        """                if isinstance(y, RemoteException):
                    y = y.exc
                if not fut.cancelled():
                    try:
                        if isinstance(y, BaseException):
                            fut.set_exception(y)
                        else:
                            fut.set_result(y)
                    except concurrent.futures.InvalidStateError:
                        # The caller cancelled the future (timeout, or an
                        # abandoned stream) after the check above.
                        pass
                fut.data['t2'] = perf_counter()
""",
        """                self._resolve(fut, y)
                fut.data['t2'] = perf_counter()
""",
        """    def _resolve(self, fut, y):
        if isinstance(y, RemoteException):
            y = y.exc
        if not fut.cancelled():
            try:
                if isinstance(y, BaseException):
                    fut.set_exception(y)
                else:
                    fut.set_result(y)
            except concurrent.futures.InvalidStateError:
                pass

""",
        "    def _wait_for_result(self, fut: concurrent.futures.Future):\n", note='resolution of the future extracted from the gather loop'),
    _xm('G-xm-02', SV,
        """                t = timeout * 0.99 - (perf_counter() - t0)
                if t <= 0 or not self._pipeline_notfull.wait(t):
                    raise ServerBacklogFull(len(pipeline), perf_counter() - t0)
""",
        """                self._wait_for_slot(timeout, t0, pipeline)
""",
        """    def _wait_for_slot(self, timeout, t0, pipeline):
        t = timeout * 0.99 - (perf_counter() - t0)
        if t <= 0 or not self._pipeline_notfull.wait(t):
            raise ServerBacklogFull(len(pipeline), perf_counter() - t0)

""",
        "    def _wait_for_result(self, fut: concurrent.futures.Future):\n", note='admission wait extracted'),
    _xm('G-xm-03', WK,
        """                if isinstance(
                    x, Exception
                ):  # `RemteException` is not a subclass of `Exception`.
                    x = RemoteException(x)
                if isinstance(x, RemoteException):
                    q_out.put((uid, x))
                    continue
""",
        """                x = self._wrap_failure(x)
                if isinstance(x, RemoteException):
                    q_out.put((uid, x))
                    continue
""",
        """    def _wrap_failure(self, x):
        if isinstance(x, Exception):
            x = RemoteException(x)
        return x

""",
        "    def _start_single(self, *, q_in, q_out):\n", note='wrapping extracted, value returned'),
    _xm('G-xm-04', ST,
        """        while not tasks.empty():
            z = tasks.get()
            if z is None:
                break
            if isinstance(z, (Exception, StopRequested)):
                break
            _, t = z
            t.cancel()
        feeder.join()
""",
        """        _drain_and_cancel(tasks)
        feeder.join()
""",
        """def _drain_and_cancel(tasks):
    while not tasks.empty():
        z = tasks.get()
        if z is None:
            break
        if isinstance(z, (Exception, StopRequested)):
            break
        _, t = z
        t.cancel()


""",
        "def fifo_stream(\n", note='clean-up drain extracted into a module-level function'),
    _xm('G-xm-05', CX,
        """        self._result_and_error_.close()
        self._result_and_error_ = None
        if error is not None:
            self._future_.set_exception(error)
        else:
            self._future_.set_result(result)
""",
        """        self._result_and_error_.close()
        self._result_and_error_ = None
        self._publish(result, error)
""",
        """    def _publish(self, result, error):
        if error is not None:
            self._future_.set_exception(error)
        else:
            self._future_.set_result(result)

""",
        "    def _collect_result(self):\n", note='future resolution extracted from the collector'),
    _xm('G-xm-06', SL,
        """                    if isinstance(y, BaseException):
                        y = RemoteException(y)

                    z['y'][idx] = y
                    z['n'] += 1
""",
        """                    if isinstance(y, BaseException):
                        y = RemoteException(y)

                    self._record(z, idx, y)
""",
        """    def _record(self, entry, idx, y):
        entry['y'][idx] = y
        entry['n'] += 1

""",
        "    def _dequeue(self):\n", note='slot store + counter extracted (parameter renamed)'),
]

VARIANTS += [
    V('C11-E21', 'E', ALL, WK, 'Worker.start', r'(\n        )try:\n(\s+)if self\.batch_size > 1:', r'\1logger.debug("worker %s starts", self.name)\1try:\n\2if self.batch_size > 1:', note='logging before the guarded region'),
    V('C11-E22', 'E', ALL, WK, 'Worker.run', r'(\n        )obj\.start\(q_in=q_in, q_out=q_out\)', r'\1logger.info("worker %s is up", obj.name)\1obj.start(q_in=q_in, q_out=q_out)'),
]

VARIANTS += [
    _xm('G-xm-07', SV,
        """                if isinstance(y, RemoteException):
                    y = y.exc
                if not fut.cancelled():
                    try:
                        if isinstance(y, BaseException):
                            fut.set_exception(y)
                        else:
                            fut.set_result(y)
                    except concurrent.futures.InvalidStateError:
                        # The caller cancelled the future (timeout, or an
                        # abandoned stream) after the check above.
                        pass
                fut.data['t2'] = perf_counter()
""",
        """                self._resolve(fut, y)
                fut.data['t2'] = perf_counter()
""",
        """    def _resolve(self, fut, y):
        if isinstance(y, RemoteException):
            y = y.exc
        if fut.cancelled():
            return
        try:
            if isinstance(y, BaseException):
                fut.set_exception(y)
            else:
                fut.set_result(y)
        except concurrent.futures.InvalidStateError:
            pass

""",
        "    def _wait_for_result(self, fut: concurrent.futures.Future):\n", note='extracted helper with an early return'),
    _xm('G-xm-08', QU,
        """        if not self._used_lids.full():
            raise RuntimeError('the object is not in a renewable state')
        z = self._q.get()  # take out the extra `None`
        if z is not None:
            raise RuntimeError(f'expecting None, got {z}')
""",
        """        self._take_marker()
""",
        """    def _take_marker(self):
        if not self._used_lids.full():
            raise RuntimeError('the object is not in a renewable state')
        z = self._q.get()  # take out the extra `None`
        if z is not None:
            raise RuntimeError(f'expecting None, got {z}')

""",
        "    def renew(self):\n", note='marker removal of renew() extracted'),
    _xm('G-xm-09', SL,
        """            z = {'y': [None] * nn, 'n': 0}
""",
        """            z = self._new_entry(nn)
""",
        """    def _new_entry(self, n_members):
        return {'y': [None] * n_members, 'n': 0}

""",
        "    def _dequeue(self):\n", note='one-line factory helper'),
]

VARIANTS += [
    _xm('G-xm-10', WK,
        """                    if not isinstance(x, (Exception, RemoteException)):
                        try:
                            x = preprocess(x)
                        except Exception as e:
                            x = e

                # If it's an exception, short-circuit to output.
""",
        """                    if not self._is_failure(x):
                        try:
                            x = preprocess(x)
                        except Exception as e:
                            x = e

                # If it's an exception, short-circuit to output.
""",
        """    def _is_failure(self, x):
        return isinstance(x, (Exception, RemoteException))

""",
        "    def _start_single(self, *, q_in, q_out):\n", note='predicate helper used inside a test'),
    _xm('G-xm-11', SV,
        """            while len(pipeline) >= self._capacity:
                # Re-check after every wake-up: another caller may have taken the freed spot.
                if backpressure:
                    raise ServerBacklogFull(len(pipeline))
                t = timeout * 0.99 - (perf_counter() - t0)
                if t <= 0 or not self._pipeline_notfull.wait(t):
""",
        """            while self._full(pipeline):
                # Re-check after every wake-up: another caller may have taken the freed spot.
                if backpressure:
                    raise ServerBacklogFull(len(pipeline))
                t = timeout * 0.99 - (perf_counter() - t0)
                if t <= 0 or not self._pipeline_notfull.wait(t):
""",
        """    def _full(self, pipeline):
        return len(pipeline) >= self._capacity

""",
        "    def _wait_for_result(self, fut: concurrent.futures.Future):\n", note='capacity guard as a one-line predicate'),
]

VARIANTS += [
    V('C17-M20', 'M', ('C17',), QU, 'ResponsiveQueue.__getstate__', r'return self\.queue, self\.stop_requested, self\.wait_interval_seconds', 'return self.queue, self.stop_requested', ('C17-4',), note='seeded C17-r2m2 shape (with the matching __setstate__ below)'),
    V('C17-M21', 'M', ('C17',), QU, 'ResponsiveQueue.__setstate__', r'self\.queue, self\.stop_requested, self\.wait_interval_seconds = state', 'self.queue, self.wait_interval_seconds, self.stop_requested = state', ('C17-4',), note='order disagreement'),
    V('C17-E20', 'E', ALL, QU, 'ResponsiveQueue.__setstate__', r'self\.queue, self\.stop_requested, self\.wait_interval_seconds = state', 'self.__init__(*state)', note='re-initialisation with everything __getstate__ carries'),
]

VARIANTS += [
    V('C20-M20', 'M', ('C20',), CX, 'SpawnProcess.run', r'(logging\.getLogger\(\)\.removeHandler\(qh\)\n(\s+)logger_queue\.close\(\))', r'\1\n\2logger_queue.cancel_join_thread()', ('C20-2',), note='seeded C20-r2m1 shape'),
    V('C20-M21', 'M', ('C20',), CX, 'SpawnProcess._run_logger', r'logger = logging\.getLogger\(record\.name\)\n(\s+)if record\.levelno >= logger\.getEffectiveLevel\(\):\n(\s+)logger\.handle\(record\)', r'record_logger = logging.getLogger(record.name)\n\1if record.levelno >= logger.getEffectiveLevel():\n\2record_logger.handle(record)', ('C20-3',), note='seeded C20-r2m2 shape'),
    V('C20-E20', 'E', ALL, CX, 'SpawnProcess._run_logger', r'\blogger\b', 'record_logger', count=0, note='consistent rename of the local'),
]

VARIANTS += [
    V('C06-M24', 'M', ('C06',), SV, 'Server.call', r'fut = self\._enqueue\(x, timeout, backpressure\)', 'timeout = timeout or 60\n        fut = self._enqueue(x, timeout, backpressure)', ('C06-9',)),
    V('C17-M22', 'M', ('C17',), QU, 'ResponsiveQueue._get_put', r'time_total = 3600 \* 24 if timeout is None else timeout', 'time_total = timeout or 3600 * 24', ('C17-5',)),
    V('C12-M23', 'M', ('C12',), TH, 'Thread.result', r'super\(\)\.join\(timeout\)', 'super().join(timeout or None)', ('C12-8',)),
    V('C18-M20', 'M', ('C18',), SO, 'read_record', r'asyncio\.wait_for\(reader\.readuntil\(b.\\n.\), timeout\)', "asyncio.wait_for(reader.readuntil(b'\\\\n'), timeout or 0.1)", ('C18-10',)),
    V('C06-E22', 'E', ALL, SV, 'Server.call', r'fut = self\._enqueue\(x, timeout, backpressure\)', 'if timeout is None:\n            timeout = 60\n        fut = self._enqueue(x, timeout, backpressure)'),
]

# ---------------------------------------------------------------------- refactor-level rewrites, fourth batch
VARIANTS += [
    V('G-rf-65', 'E', ALL, ST, 'async_fifo_stream.feed', r't = await func\(x, \*\*func_kwargs\)', 'coro = func(x, **func_kwargs)\n                    t = await coro', count=1),
    V('G-rf-66', 'E', ALL, ST, 'async_fifo_stream', r'x, t = z\n', 'x = z[0]\n            t = z[1]\n'),
    V('G-rf-67', 'E', ALL, ST, 'async_fifo_stream', r'for t in cancelled_tasks:\n\s+try:\n\s+await t\n\s+except \(asyncio\.CancelledError, Exception\):[^\n]*\n\s+pass', 'await asyncio.gather(*cancelled_tasks, return_exceptions=True)', note='loop of guarded awaits -> gather(return_exceptions=True)'),
    V('G-rf-68', 'E', ALL, ST, 'fifo_stream', r'except BaseException:  # in particular, include GeneratorExit', 'except:  # noqa: E722'),
    V('C01-M20', 'M', ('C01',), ST, 'Parmapper.__iter__', r'yield from fifo_stream\(', 'results = fifo_stream(', ('C01-6',), note='stream built but not yielded from'),
    V('G-rf-69', 'E', ALL, ST, 'Parmapper.__iter__', r'yield from fifo_stream\((.*?\n            \))', r'results = fifo_stream(\1\n            yield from results', note='generator bound to a local, then yield from it'),
    V('G-rf-70', 'E', ALL, ST, 'Parmapper.__iter__', r'def _work\(x, \*\*kwargs\):\n(\s+)return executor\.submit\(self\._func, x, loud_exception=False, \*\*kwargs\)', r'def _work(x, **kwargs):\n\1fut = executor.submit(self._func, x, loud_exception=False, **kwargs)\n\1return fut'),
    V('G-rf-72', 'E', ALL, SV, 'AsyncServer._enqueue', r'if t <= 0:\n(\s+)raise ServerBacklogFull\(len\(pipeline\), perf_counter\(\) - t0\)\n', r'if not t > 0:\n\1raise ServerBacklogFull(len(pipeline), perf_counter() - t0)\n'),
    V('G-rf-73', 'E', ALL, SV, 'Server.__exit__', r'if self\._onboard_thread is not None:', 'onboard = self._onboard_thread\n        if onboard is not None:'),
    V('G-rf-74', 'E', ALL, SL, 'ProcessServlet._stop_workers', r'for w in self\._workers:', 'for w in list(self._workers):'),
    V('G-rf-75', 'E', ALL, SL, 'ThreadServlet._stop_workers', r'for w in self\._workers:\n(\s+)w\.join\(\)', r'for worker in self._workers:\n\1worker.join()'),
    V('G-rf-76', 'E', ALL, QU, 'IterableQueue.put_end', r'self\._applied_lids\.put\(z\)\n(\s+)self\.put\(None\)', r'token = z\n\1self._applied_lids.put(token)\n\1self.put(None)'),
]

VARIANTS += [
    V('C12-M24', 'M', ('C12',), CX, 'SpawnProcess.done', r'if self\.exitcode is not None:\n\s+return True\n.*?\n        \)\n', 'return self.exitcode is not None\n', ('C12-10',), note='D17 shape: done() rests on exitcode alone while the collector polls it'),
    V('C05-M21', 'M', ('C05', 'C08'), SA, 'AsyncIter.__aiter__', r'x = await loop\.run_in_executor\(None, next, instream, finished\)', 'x = await fut\n                fut = loop.run_in_executor(None, next, instream, finished)', ('C05-7', 'C08-5'), note='seeded C05-r3m1 shape (prefetch)'),
    V('C01-M21', 'M', ('C01', 'C03'), ST, 'fifo_stream', r'if return_exceptions:\n(?:\s+#[^\n]*\n)*\s+y = e\n\s+else:\n\s+raise\n', 'y = e\n            if isinstance(y, Exception) and not return_exceptions:\n                raise y\n', ('C01-3', 'C03-9'), note='seeded C03-r3m2 shape'),
]

# ---------------------------------------------------------------------- rules added after the third seeding round
VARIANTS += [
    V('C12-M25', 'M', ('C12',), CX, 'SpawnProcess.run', r'if e\.code is None:', 'if not e.code:', ('C12-11',), note='seeded C12-r3m1 shape: falsy exit codes taken for success'),
    V('C12-M26', 'M', ('C12',), TH, 'Thread.run', r'if e\.code == 0:', 'if e.code <= 0:', ('C12-11',)),
    V('C12-M27', 'M', ('C12',), CX, 'SpawnProcess._collect_result', r'msg = os\.strerror\(exitcode\)', 'msg = signal.Signals(exitcode).name', ('C12-3',), note='seeded C12-r3m2 shape: a call that can raise inside the EOF handler'),
    V('C12-E22', 'E', ALL, CX, 'SpawnProcess._collect_result', r'msg = os\.strerror\(exitcode\)', "msg = os.strerror(exitcode)\n                logger.debug('child ended by signal %s', exitcode)"),
    V('C13-M20', 'M', ('C13', 'C14'), SP, 'BaseProxy._decref', r'(\n        )idset\.discard\(token\.id\)', r'\1server = get_server()\1idset.discard(token.id)', ('C13-6', 'C14-7'), note='seeded C13-r3m2 shape'),
    V('C10-M20', 'M', ('C10',), TE, 'tee', r'queue\.Queue\(buffer_size\)', 'queue.Queue(buffer_size + 1)', ('C10-7',), note='seeded C10-r3m1 shape'),
    V('C10-M21', 'M', ('C10',), TE, 'Fork.__next__', r'try:\n(\s+)x = next\(self\.instream\)\n\s+except StopIteration:\n(?:\s+#[^\n]*\n)*\s+pass\n\s+else:\n', r'x = next(self.instream, None)\n                            if x is not None:\n', ('C10-7',), note='seeded C10-r3m2 shape'),
    V('C04-M22', 'M', ('C04',), WK, 'Worker._start_batch', r'err = RemoteException\(yy\)', 'err = RemoteException(type(yy)(*yy.args), RemoteException(yy).tb)', ('C04-4',), note='seeded C04-r3m1 shape: a re-created exception object'),
    V('C09-M23', 'M', ('C09', 'C02'), WK, 'Worker._get_input_batch', r'buffer\.put\(z\)\n\s+break', 'return z', ('C09-7', 'C02-8'), note='seeded C09-r3m1 shape'),
    V('C09-M24', 'M', ('C09', 'C02'), WK, '_SimpleThreadQueue.__init__', r'self\._rlock = threading\.RLock\(\)', 'self._rlock = None', ('C09-7', 'C02-8')),
    V('C02-M21', 'M', ('C02', 'C06', 'C04'), SL, 'EnsembleServlet._dequeue', r"elif z\['n'\] == nn:", "if z['n'] == nn:", ('C02-5', 'C06-10', 'C04-8'), note='seeded C02-r3m2 shape'),
    V('C14-M24', 'M', ('C14',), SP, 'managed', r'(\n    )(proxy = server\.create\(None, typeid, obj\))', r'\1\2\1server.registry.pop(typeid, None)', ('C14-9',), note='seeded C14-r3m2 shape'),
    V('C11-M22', 'M', ('C11',), SL, 'EnsembleServlet.start', r'(\n\s+)(for ss in self\._servlets\[: len\(self\._qins\)\]:\n\s+ss\.stop\(\)[^\n]*)\n\s+self\._reset\(\)\n', r'\1self._reset()\1\2\n', ('C11-1',), note='seeded C11-r3m2 shape'),
]

FU = 'concurrent/futures/__init__.py'
VARIANTS += [
    V('C01-M22', 'M', ('C01',), FU, '_loud_thread_function', r'traceback\.print_exception\(\*sys\.exc_info\(\)\)\n\s+raise', 'traceback.print_exception(*sys.exc_info())', ('C01-7',), note='printed, not re-raised: the failed call yields None'),
    V('C01-M23', 'M', ('C01',), FU, 'ProcessPoolExecutor.submit', r'return super\(\)\.submit\(_loud_process_function, fn, \*args, \*\*kwargs\)', 'return super().submit(_loud_process_function, fn, *args)', ('C01-7',), note='keyword arguments dropped on the loud branch'),
    V('C17-M23', 'M', ('C17',), QU, 'IterableQueue.__init__', r'self\._used_lids = queue\.Queue\(maxsize=num_suppliers\)', 'self._used_lids = queue.Queue(maxsize=num_suppliers + 1)', ('C17-6',)),
    V('C09-M25', 'M', ('C09',), WK, 'Worker._start_batch', r'SingleLane\(self\.batch_size \+ 10\)', 'SingleLane(self.batch_size - 1)', ('C09-8',)),
    V('C09-E21', 'E', ALL, WK, 'Worker._start_batch', r'SingleLane\(self\.batch_size \+ 10\)', 'SingleLane(self.batch_size + 16)'),
]

VARIANTS += [
    V('C20-M22', 'M', ('C20',), FU, 'ProcessPoolExecutor.__init__', r'mp_context = MP_SPAWN_CTX', "mp_context = multiprocessing.get_context('spawn')", ('C20-4',)),
    V('C20-M23', 'M', ('C20',), SL, None, r'from mpservice\.multiprocessing import Process\n', 'from multiprocessing import Process\n', ('C20-4',), flags=0),
]

VARIANTS += [
    V('C17-M24', 'M', ('C17',), QU, 'ResponsiveQueue._get_put', r'perf_counter\(\)', 'time.time()', ('C17-5',), count=0, note='wall clock in a timed wait'),
    V('C06-M25', 'M', ('C06',), SV, 'Server._enqueue', r'perf_counter\(\)', 'time.time()', ('C06-9', 'C06-8'), count=0),
    V('C19-M22', 'M', ('C19',), ST, 'EagerBatcher.__iter__', r'time\.perf_counter\(\)', 'time.time()', ('C19-3',), count=0, note='seeded C19-r3m2 shape'),
    V('C01-M24', 'M', ('C01', 'C18', 'C03', 'C05', 'C08'), QS, 'SingleLane.get', r'(\n(\s+))z = self\._queue\.popleft\(\)\n\s+self\._not_full\.notify\(\)', r'\1was_full = self.full()\1z = self._queue.popleft()\1if was_full:\1    self._not_full.notify()', ('C01-4', 'C18-11', 'C03-8', 'C05-8', 'C08-5'), note='seeded C18-r3m2 shape: conditional notify'),
]


# ---------------------------------------------------------------------- whole-module reformat: every module re-emitted by ast.unparse (comments gone, all line numbers moved, quotes/parentheses normalised)
def _reformat(m):
    import ast as _ast

    return _ast.unparse(_ast.parse(m.group(0))) + '\n'


for _i, _m in enumerate(_MODS + [FU]):
    VARIANTS.append(V(f'G-fmt-{_i:02d}', 'E', ALL, _m, None, r'\A.*\Z', _reformat, flags=re.S, note='module re-emitted by ast.unparse'))

# ---------------------------------------------------------------------- assignment expressions (walrus) in loop / if tests
VARIANTS += [
    V('G-wl-01', 'E', ALL, ST, 'fifo_stream', r'while True:\n(\s+)z = tasks\.get\(\)\n\s+if z is None:\n\s+break\n', r'while (z := tasks.get()) is not None:\n'),
    V('G-wl-02', 'E', ALL, ST, 'Buffer.__iter__', r'while True:\n(\s+)z = tasks\.get\(\)\n\s+if z is finished:\n\s+break\n', r'while (z := tasks.get()) is not finished:\n'),
    V('G-wl-03', 'E', ALL, SV, 'Server._gather_output', r'z = q_out\.get\(\)\n(\s+)if z is None:\n', r'if (z := q_out.get()) is None:\n'),
    V('G-wl-04', 'E', ALL, WK, 'Worker._start_single.get_input', r'z = q_in\.get\(\)\n(\s+)if z is None:\n', r'if (z := q_in.get()) is None:\n'),
    V('G-wl-05', 'E', ALL, SV, 'Server._gather_output.notify', r'z = q\.get\(\)\n(\s+)if z is None:\n', r'if (z := q.get()) is None:\n'),
    V('G-wl-06', 'E', ALL, CX, 'SpawnProcess._run_logger', r'ended = child_ended\.is_set\(\)\n(\s+)# Read the flag before looking at the queue\.\n', r'if (ended := child_ended.is_set()):\n\1    pass\n'),
    V('G-wl-07', 'E', ALL, SL, 'EnsembleServlet._dequeue', r'z = catalog\.get\(uid\)\n(\s+)if z is None:\n', r'if (z := catalog.get(uid)) is None:\n'),
]

VARIANTS += [
    V('C20-M24', 'M', ('C20',), CX, 'SpawnProcess._close_logger', r'self\._child_ended_\.set\(\)', 'self._logger_queue_.put(None)', ('C20-5',), note='D18 shape: the end marker is the first put on the log queue'),
]

# ---------------------------------------------------------------------- rules added after the third round (second half) and the fourth
VARIANTS += [
    V('C08-M20', 'M', ('C08', 'C01', 'C03', 'C05', 'C18'), QS, 'SingleLane.put', r'if 0 < self\.maxsize <= len\(self\._queue\):', 'if 0 < self.maxsize < len(self._queue):', ('C01-4', 'C08-5', 'C03-8', 'C05-8', 'C18-11'), note='seeded C08-r3m2 shape'),
    V('C20-M25', 'M', ('C20',), CX, 'SpawnProcess.run', r'root\.setLevel\(logging\.DEBUG\)', 'root.setLevel(logging.INFO)', ('C20-2',), note='seeded C20-r3m2 shape'),
    V('C20-M26', 'M', ('C20',), CX, 'SpawnProcess._close_logger', r'multiprocessing\.connection\.wait\(\[sentinel\]\)', 'multiprocessing.connection.wait([sentinel], timeout=5)', ('C20-1',), note='seeded C20-r3m1 shape'),
    V('C09-E22', 'E', ALL, WK, 'Worker._get_input_batch', r'buffer\.get\(timeout=max\(0, t\)\)', 'buffer.get(timeout=t)', note='half of seeded C09-r4m1: harmless alone, SingleLane hands a negative timeout to Condition.wait, which returns at once'),
    V('C19-M23', 'M', ('C19',), ST, 'EagerBatcher.__iter__', r'q_in\.get\(timeout=max\(0, t\)\)', 'q_in.get(timeout=t)', ('C19-3',), note='queue.Queue raises ValueError on a negative timeout'),
    V('C09-M27', 'M', ('C09', 'C04'), WK, 'Worker._build_input_batches', r"preprocess = getattr\(self, 'preprocess', None\)", 'preprocess = self._preprocess', ('C09-9', 'C04-9'), note='seeded C09-r4m2 / C04-r4m1 shape (cached hook)'),
    V('C06-M26', 'M', ('C06',), SV, 'Server._enqueue', r"(\n        )fut\.data\['t1'\] = perf_counter\(\)", r"\1fut.data['t1'] = perf_counter()\1fut.data['deadline'] = fut.data['t1'] + timeout", ('C06-12',), note='seeded C06-r4m1 shape: deadline re-anchored after admission'),
]


# ---------------------------------------------------------------------- type annotations added: every plain local / attribute assignment annotated, every parameter annotated
def _annotate(m):
    import ast as _ast

    tree = _ast.parse(m.group(0))
    for fn in [x for x in _ast.walk(tree) if isinstance(x, (_ast.FunctionDef, _ast.AsyncFunctionDef))]:
        declared = {n_ for g in _ast.walk(fn) if isinstance(g, (_ast.Global, _ast.Nonlocal)) for n_ in g.names}
        for a in fn.args.posonlyargs + fn.args.args + fn.args.kwonlyargs:
            if a.annotation is None and a.arg not in ('self', 'cls'):
                a.annotation = _ast.Constant('object')
        for node in _ast.walk(fn):
            for fld in ('body', 'orelse', 'finalbody'):
                blk = getattr(node, fld, None)
                if not isinstance(blk, list):
                    continue
                for i, st in enumerate(blk):
                    if isinstance(st, _ast.Assign) and len(st.targets) == 1:
                        t = st.targets[0]
                        if (isinstance(t, _ast.Name) and t.id not in declared) or (isinstance(t, _ast.Attribute) and isinstance(t.value, _ast.Name)):
                            blk[i] = _ast.copy_location(_ast.AnnAssign(target=t, annotation=_ast.Constant('object'), value=st.value, simple=1 if isinstance(t, _ast.Name) else 0), st)
    return _ast.unparse(_ast.fix_missing_locations(tree)) + '\n'


for _i, _m in enumerate(_MODS + [FU]):
    VARIANTS.append(V(f'G-ann-{_i:02d}', 'E', ALL, _m, None, r'\A.*\Z', _annotate, flags=re.S, note='every parameter and every plain assignment in a function given a type annotation'))


# ---------------------------------------------------------------------- trace logging added everywhere: a debug line at the start of every function, loop body and handler, and before every return
def _tracelog(m):
    import ast as _ast

    src = m.group(0)
    tree = _ast.parse(src)
    if not any(isinstance(st, _ast.Assign) and any(isinstance(t, _ast.Name) and t.id == 'logger' for t in st.targets) for st in tree.body):
        return src
    k = [0]

    def line():
        k[0] += 1
        return _ast.parse(f"logger.debug('trace %d', {k[0]})").body[0]

    def pad(block):
        out = []
        for st in block:
            if isinstance(st, _ast.Return):
                out.append(line())
            out.append(st)
        block[:] = out

    for fn in [x for x in _ast.walk(tree) if isinstance(x, (_ast.FunctionDef, _ast.AsyncFunctionDef))]:
        for node in _ast.walk(fn):
            if isinstance(node, (_ast.FunctionDef, _ast.AsyncFunctionDef, _ast.ClassDef, _ast.Lambda)) and node is not fn:
                continue
            for fld in ('body', 'orelse', 'finalbody'):
                blk = getattr(node, fld, None)
                if isinstance(blk, list) and blk and isinstance(blk[0], _ast.stmt):
                    pad(blk)
            if isinstance(node, (_ast.For, _ast.AsyncFor, _ast.While, _ast.ExceptHandler)):
                node.body.insert(0, line())
        i = 1 if fn.body and isinstance(fn.body[0], _ast.Expr) and isinstance(fn.body[0].value, _ast.Constant) and isinstance(fn.body[0].value.value, str) else 0
        fn.body.insert(i, line())
    return _ast.unparse(_ast.fix_missing_locations(tree)) + '\n'


for _i, _m in enumerate(_MODS + [FU]):
    VARIANTS.append(V(f'G-log-{_i:02d}', 'E', ALL, _m, None, r'\A.*\Z', _tracelog, flags=re.S, note='logger.debug lines at the start of every function, loop body and handler and before every return'))


# ---------------------------------------------------------------------- import style: `from M import a` <-> `import M` + `M.a`
_STD_FROM = ('time', 'queue', 'collections', 'pickle')
_STD_QUAL = {'queue': ('Empty', 'Full', 'SimpleQueue'), 'threading': ('Lock', 'RLock', 'Condition', 'Event', 'Semaphore', 'BoundedSemaphore', 'current_thread'), 'time': ('perf_counter', 'monotonic', 'sleep'), 'traceback': ('format_exc', 'format_exception', 'print_exc'), 'itertools': ('count', 'islice'), 'functools': ('partial', 'wraps')}


def _qualify_imports(m):
    import ast as _ast

    src = m.group(0)
    tree = _ast.parse(src)
    stored = {n.id for n in _ast.walk(tree) if isinstance(n, _ast.Name) and isinstance(n.ctx, (_ast.Store, _ast.Del))} | {a.arg for n in _ast.walk(tree) if isinstance(n, _ast.arguments) for a in n.posonlyargs + n.args + n.kwonlyargs}
    mapping = {}
    new_body = []
    have = {a.name for st in tree.body if isinstance(st, _ast.Import) for a in st.names if a.asname is None}
    for st in tree.body:
        if isinstance(st, _ast.ImportFrom) and st.level == 0 and st.module in _STD_FROM and all((a.asname or a.name) not in stored for a in st.names):
            for a in st.names:
                mapping[a.asname or a.name] = (st.module, a.name)
            if st.module not in have:
                have.add(st.module)
                new_body.append(_ast.copy_location(_ast.Import(names=[_ast.alias(name=st.module)]), st))
            continue
        new_body.append(st)
    if not mapping:
        return src
    tree.body = new_body

    class T(_ast.NodeTransformer):
        def visit_Name(self, n):
            if isinstance(n.ctx, _ast.Load) and n.id in mapping:
                mod, nm = mapping[n.id]
                return _ast.copy_location(_ast.Attribute(value=_ast.Name(id=mod, ctx=_ast.Load()), attr=nm, ctx=_ast.Load()), n)
            return n

    tree = T().visit(tree)
    return _ast.unparse(_ast.fix_missing_locations(tree)) + '\n'


def _unqualify_imports(m):
    import ast as _ast

    src = m.group(0)
    tree = _ast.parse(src)
    bound = {n.id for n in _ast.walk(tree) if isinstance(n, _ast.Name)} | {a.arg for n in _ast.walk(tree) if isinstance(n, _ast.arguments) for a in n.posonlyargs + n.args + n.kwonlyargs} | {a.asname or a.name.split('.')[0] for st in _ast.walk(tree) if isinstance(st, (_ast.Import, _ast.ImportFrom)) for a in st.names} | {n.name for n in _ast.walk(tree) if isinstance(n, (_ast.FunctionDef, _ast.AsyncFunctionDef, _ast.ClassDef))}
    imported = {a.name for st in tree.body if isinstance(st, _ast.Import) for a in st.names if a.asname is None}
    used = {}

    class T(_ast.NodeTransformer):
        def visit_Attribute(self, n):
            self.generic_visit(n)
            if isinstance(n.value, _ast.Name) and n.value.id in _STD_QUAL and n.value.id in imported and n.attr in _STD_QUAL[n.value.id] and n.attr not in bound and isinstance(n.ctx, _ast.Load):
                used.setdefault(n.value.id, set()).add(n.attr)
                return _ast.copy_location(_ast.Name(id=n.attr, ctx=_ast.Load()), n)
            return n

    tree = T().visit(tree)
    if not used:
        return src
    at = max((i for i, st in enumerate(tree.body) if isinstance(st, (_ast.Import, _ast.ImportFrom))), default=0) + 1
    for mod, names in sorted(used.items()):
        tree.body.insert(at, _ast.ImportFrom(module=mod, names=[_ast.alias(name=x) for x in sorted(names)], level=0))
    return _ast.unparse(_ast.fix_missing_locations(tree)) + '\n'


for _i, _m in enumerate(_MODS + [FU]):
    VARIANTS.append(V(f'G-imq-{_i:02d}', 'E', ALL, _m, None, r'\A.*\Z', _qualify_imports, flags=re.S, note='`from time import perf_counter` style replaced by `import time` + `time.perf_counter` (time, queue, collections, pickle)'))
    VARIANTS.append(V(f'G-imu-{_i:02d}', 'E', ALL, _m, None, r'\A.*\Z', _unqualify_imports, flags=re.S, note='`threading.Lock()` / `queue.Empty` / `time.perf_counter()` style replaced by from-imports'))


# ---------------------------------------------------------------------- module aliases: `import threading` -> `import threading as th_`
def _alias_imports(m):
    import ast as _ast

    src = m.group(0)
    tree = _ast.parse(src)
    subs = {a.name.split('.')[0] for st in _ast.walk(tree) if isinstance(st, _ast.Import) for a in st.names if '.' in a.name}
    stored = {n.id for n in _ast.walk(tree) if isinstance(n, _ast.Name) and isinstance(n.ctx, (_ast.Store, _ast.Del))} | {a.arg for n in _ast.walk(tree) if isinstance(n, _ast.arguments) for a in n.posonlyargs + n.args + n.kwonlyargs + ([n.vararg] if n.vararg else []) + ([n.kwarg] if n.kwarg else [])}
    mapping = {}
    for st in tree.body:
        if isinstance(st, _ast.Import):
            for a in st.names:
                if a.asname is None and '.' not in a.name and a.name not in subs and a.name not in stored and a.name in ('threading', 'queue', 'time', 'asyncio', 'os', 'traceback', 'itertools', 'functools', 'errno', 'sys'):
                    a.asname = a.name[:2] + '_'
                    mapping[a.name] = a.asname
    if not mapping:
        return src
    for n in _ast.walk(tree):
        if isinstance(n, _ast.Name) and n.id in mapping and isinstance(n.ctx, _ast.Load):
            n.id = mapping[n.id]
    return _ast.unparse(_ast.fix_missing_locations(tree)) + '\n'


for _i, _m in enumerate(_MODS + [FU]):
    VARIANTS.append(V(f'G-ima-{_i:02d}', 'E', ALL, _m, None, r'\A.*\Z', _alias_imports, flags=re.S, note='`import threading` style replaced by `import threading as th_` (and uses)'))

VARIANTS += [
    V('C12-M30', 'M', ('C12',), CX, 'SpawnProcess.join', r"(\n        )self\._result_collector_thread_\.join\(\)\n", r"\1if self.exitcode == 0:\1    return\1self._result_collector_thread_.join()\n", ('C12-4',), note='seeded C12-r4m1 shape on the repaired tree: exit status 0 skips the outcome'),
    V('C12-M31', 'M', ('C12',), CX, 'SpawnProcess.join', r"(\n        )self\._result_collector_thread_\.join\(\)\n", r"\1self._result_collector_thread_.join()\1self._logger_thread_.join()\n", ('C12-4',), note='seeded C12-r4m2 shape: join also waits for the log channel'),
    V('C12-E30', 'E', ALL, CX, 'SpawnProcess.join', r"(\n        )if self\._future_\.exception\(\) is not None:\n\s+raise self\._future_\.exception\(\)", r"\1exc = self._future_.exception()\1if exc is not None:\1    raise exc", note='outcome bound to a local'),
]

VARIANTS += [
    V('C03-M30', 'M', ('C03', 'C05'), ST, 'Buffer.__iter__', r'if z is finished:', 'if z == finished:', ('C03-7', 'C05-2'), note='D20 shape: marker recognised by equality'),
    V('C03-M31', 'M', ('C03', 'C05'), SA, 'AsyncIter.__aiter__', r'if x is finished:', 'if x == finished:', ('C03-7', 'C05-2'), note='D20 shape'),
    V('C03-M32', 'M', ('C03', 'C05'), SA, 'SyncIter.__iter__', r'if x is stopped:', 'if stopped == x:', ('C03-7', 'C05-2'), note='D20 shape, marker on the left'),
    V('C03-M33', 'M', ('C03', 'C05'), SA, 'AsyncBuffer', r'(self\._externally_stopped = to_stop\n)(\n    def _start\(self\):\n        self\._stopped = threading\.Event\(\)\n)        self\._tasks = SingleLane\(self\.maxsize\)\n', r'\1        self._tasks = SingleLane(self.maxsize)\n\2', ('C03-7', 'C05-9'), note='seeded C03-r4m2 shape on the async buffer: queue created by the constructor'),
    V('C03-E30', 'E', ALL, ST, 'Buffer.__iter__', r'if z is finished:', 'if z is FINISHED:', note='marker named directly'),
]

RX = 'multiprocessing/remote_exception.py'
SP = 'multiprocessing/server_process.py'
VARIANTS += [
    V('C15-E30', 'E', ALL, RX, 'RemoteException.__init__', r"for i in range\(len\(z\)\):\n(\s+)if isinstance\(z\[i\], BaseException\):", r"for i, v in enumerate(z):\n\1if isinstance(v, BaseException):", note='enumerate form of the re-wrap loop'),
    V('C15-M30', 'M', ('C15', 'C04', 'C12', 'C14'), RX, 'RemoteException.__init__', r"for i in range\(len\(z\)\):", r"for i in range(exc.args[1]['n']):", ('C15-5', 'C04-7', 'C12-9', 'C14-8'), note='seeded C15-r4m1 shape'),
    V('C15-M31', 'M', ('C15',), RX, 'EnsembleError.__reduce__', r"return type\(self\), ", r"return EnsembleError, ", ('C15-5',), note='seeded C15-r4m2 shape'),
    V('C14-M30', 'M', ('C14', 'C13'), SP, 'BaseProxy._decref', r"\n\s+del tls\.connection", '', ('C14-10', 'C13-7'), note='seeded C14-r4m1 / C13-r4m1 shape'),
    V('C14-E30', 'E', ALL, SP, 'BaseProxy._decref', r"(\n\s+)tls\.connection\.close\(\)\n\s+del tls\.connection", r"\1conn = tls.connection\1del tls.connection\1conn.close()", note='removed from the cache first, then closed'),
    V('C14-M31', 'M', ('C14',), SP, 'Server._callmethod', r"if typeid:", r"if typeid and res is not None:", ('C14-11',), note='seeded C14-r4m2 shape (None variant)'),
    V('C13-M30', 'M', ('C13',), SP, 'BaseProxy.__reduce__', r"(\n(\s+))conn = self\._Client\(self\._token\.address, authkey=self\._authkey\)\n\s+dispatch\(conn, None, 'incref', \(self\._id,\)\)", r"\1try:\1    conn = self._Client(self._token.address, authkey=self._authkey)\1    dispatch(conn, None, 'incref', (self._id,))\1except OSError:\1    pass", ('C13-2',), note='seeded C13-r4m2 shape'),
    V('C06-M30', 'M', ('C06', 'C07'), SV, 'Server._enqueue', r"(\n(\s+))pipeline\[uid\] = fut\n", r"\1if perf_counter() >= fut.data['deadline']:\1    raise ServerBacklogFull(len(pipeline), perf_counter() - t0)\1pipeline[uid] = fut\n", ('C06-1', 'C06-13', 'C07-7'), note='seeded C07-r4m2 shape placed after the loop'),
    V('C11-M30', 'M', ('C11',), SL, 'SwitchServlet.start', r"(\n        self\._qout = q_out\n)(.*?)(\n        self\._thread_enqueue = Thread\(.*?self\._thread_enqueue\.start\(\)\n)", r"\1\3\2\n", ('C11-1',), note='seeded C11-r4m2 shape'),
    V('C16-M30', 'M', ('C16', 'C06'), SV, 'AsyncServer._enqueue', r"(async with self\._pipeline_notfull:\n(\s+))(while len\(pipeline\) >= self\._capacity:.*?)\n\s+t = timeout \* 0\.99 - \(perf_counter\(\) - t0\)\n", r"\1t = timeout * 0.99 - (perf_counter() - t0)\n\2\3\n", ('C16-8', 'C06-8'), note='seeded C16-r4m2 shape'),
]

TE = 'streamer/_tee.py'
VARIANTS += [
    V('C10-M30', 'M', ('C10',), TE, 'tee', r"Fork\(instream, n, buffer, head, instream_lock, i\)", "Fork(instream, 2, buffer, head, instream_lock, i)", ('C10-8',), note='seeded C10-r4m2 shape: constant number of forks'),
    V('C10-E30', 'E', ALL, TE, 'tee', r"Fork\(instream, n, buffer, head, instream_lock, i\)", "Fork(instream, n_forks=n, buffer=buffer, head=head, instream_lock=instream_lock, fork_idx=i)", note='keyword form of the construction'),
]

TH = 'threading/__init__.py'
VARIANTS += [
    V('C12-M32', 'M', ('C12',), TH, 'Thread.run', r"try:\n\s+cause = type\(e\)\(tb\)\n\s+except Exception:\n(?:\s+#[^\n]*\n)*\s+cause = RuntimeError\(tb\)\n", "cause = type(e)(tb)\n", ('C12-1',), note='D21 shape: user class constructor in the handler, unguarded'),
    V('C12-E32', 'E', ALL, TH, 'Thread.run', r"cause = RuntimeError\(tb\)", "cause = Exception(tb)", note='another total class for the fallback'),
]

VARIANTS += [
    V('C01-M30', 'M', ('C01', 'C03'), ST, 'fifo_stream', r"(y = fut\.result\(\)\n\s+)except Exception as e:", r"\1except BaseException as e:", ('C01-3', 'C03-9'), note='seeded C01-r4m2 shape'),
    V('C01-M31', 'M', ('C16',), ST, 'async_fifo_stream', r"(y = await t\n\s+)except Exception as e:", r"\1except (Exception, asyncio.CancelledError) as e:", ('C16-1c',), note='async sibling of C01-M30'),
    V('C01-M32', 'M', ('C01', 'C08'), SA, 'AsyncParmapper.__aiter__', r"executor = ThreadPoolExecutor\(\n\s+self\._concurrency,\n\s+initializer=self\._executor_initializer,\n\s+initargs=self\._executor_init_args,\n\s+thread_name_prefix=self\._name \+ '-thread',\n\s+\)", "executor = _SHARED_POOL", ('C01-9', 'C08-3'), note='seeded C01-r4m1 shape on the async parmapper'),
]

VARIANTS += [
    V('C12-M33', 'M', ('C12',), TH, 'Thread', r"self\._future_: concurrent\.futures\.Future = concurrent\.futures\.Future\(\)(.*?)(\n    def run\(self\):.*?\n)(        try:\n            if self\._target is not None:)", r"self._future_: concurrent.futures.Future = None\1\2        self._future_ = concurrent.futures.Future()\n\3", ('C12-12',), note='D22 shape: future created by the new thread'),
    V('C12-M34', 'M', ('C12',), TH, 'Thread.run', r"(\n        )try:\n(            if self\._target is not None:)", r"\1self._future_ = concurrent.futures.Future()\1try:\n\2", ('C12-12',), note='run() replaces the future made by the constructor'),
    V('C12-E33', 'E', ALL, TH, 'Thread', r"self\._future_: concurrent\.futures\.Future = concurrent\.futures\.Future\(\)", "self._future_ = concurrent.futures.Future()", note='annotation dropped'),
]

VARIANTS += [
    V('C19-E30', 'E', ALL, ST, 'EagerBatcher.__iter__', r"while n < batchsize:", "while len(batch) < batchsize:", note='guard on the list itself'),
    V('C19-E31', 'E', ALL, ST, 'EagerBatcher.__iter__', r"while n < batchsize:\n(\s+)t = deadline", r"while True:\n\1if n >= batchsize:\n\1    break\n\1t = deadline", note='guard moved into the loop'),
    V('C19-E32', 'E', ALL, ST, 'EagerBatcher.__iter__', r"while n < batchsize:", "while not (batchsize <= n):", note='guard negated and mirrored'),
    V('C19-M30', 'M', ('C19',), ST, 'EagerBatcher.__iter__', r'\A.*\Z', lambda m: m.group(0).replace('            n = 1\n', '').replace('while n < batchsize:', 'while True:').replace('                n += 1\n', '                if len(batch) == batchsize:\n                    break\n'), ('C19-2',), note='seeded C19-r4m1 shape'),
    V('C09-E30', 'E', ALL, WK, 'Worker._get_input_batch', r"while n < batchsize:", "while len(out) < batchsize:", note='guard on the list itself'),
    V('C09-M30', 'M', ('C09',), WK, 'Worker._get_input_batch', r"while n < batchsize:", "while len(out) <= batchsize:", ('C09-2',), note='non-strict guard on the list'),
]

SO = 'socket.py'
VARIANTS += [
    V('C18-M30', 'M', ('C18',), SO, 'write_record', r"(\n    )data_bytes = encode\(data, encoder\)", r"\1if isinstance(data, bytes):\1    encoder = 'none'\1data_bytes = encode(data, encoder)", ('C18-12',), note='seeded C18-r4m2 shape'),
    V('C18-M31', 'M', ('C18',), SO, 'SocketClient.stream', r"(\n(\s+))y = fut\.result\(timeout=response_timeout - \(perf_counter\(\) - t0\)\)", r"\1if perf_counter() - t0 > response_timeout:\1    raise TimeoutError\1y = fut.result(timeout=response_timeout - (perf_counter() - t0))", ('C18-13',), note='seeded C18-r4m1 shape'),
    V('C18-E30', 'E', ALL, SO, 'SocketClient.stream', r"y = fut\.result\(timeout=response_timeout - \(perf_counter\(\) - t0\)\)", r"remaining = response_timeout - (perf_counter() - t0)\n                y = fut.result(timeout=remaining)", note='remaining time bound to a local'),
]

QM = 'queue.py'
VARIANTS += [
    V('C17-M30', 'M', ('C17',), QM, 'IterableQueue.__init__', r"if isinstance\(q, \(queue\.Queue, queue\.SimpleQueue\)\):", "if not isinstance(q, (multiprocessing.Queue, multiprocessing.SimpleQueue)):", ('C17-7',), note='seeded C17-r4m1 shape'),
    V('C17-E30', 'E', ALL, QM, 'IterableQueue.__init__', r"if isinstance\(q, \(queue\.Queue, queue\.SimpleQueue\)\):(.*?)\n        else:\n(.*?)(\n        # `_lids_lock` makes)", lambda m: "if not isinstance(q, (queue.Queue, queue.SimpleQueue)):" + "\n" + m.group(2) + "\n        else:" + m.group(1) + m.group(3), note='arms swapped under not'),
]

VARIANTS += [
    V('C20-M30', 'M', ('C20',), CX, 'SpawnProcess.start', r"(\n        )self\._logger_thread_\.start\(\)\n", r"\1self._logger_thread_.start()\1self._logger_queue_.put('warm-up')\n", ('C20-6',), note='the regression of ad9cd7f: a put by the parent while the child is alive (nested processes hang)'),
    V('C20-M31', 'M', ('C20',), CX, 'SpawnProcess._run_logger', r"if ended:", "if child_ended.is_set():", ('C20-1',), note='flag read after the look at the queue'),
    V('C20-M32', 'M', ('C20',), CX, 'SpawnProcess._run_logger', r"record = q\.get\(timeout=0\.1\)", "record = q.get()", ('C20-1',), note='untimed wait: the flag is never looked at'),
    V('C20-M33', 'M', ('C20',), CX, 'SpawnProcess._close_logger', r"(\n        )multiprocessing\.connection\.wait\(\[sentinel\]\)\n\s+self\._child_ended_\.set\(\)", r"\1self._child_ended_.set()\1multiprocessing.connection.wait([sentinel])", ('C20-1',), note='flag set before the child was observed dead'),
    V('C20-M34', 'M', ('C20',), CX, 'SpawnProcess._run_logger', r"(\n(\s+))ended = child_ended\.is_set\(\)\n", r"\1if child_ended.is_set():\1    break\1ended = False\n", ('C20-1',), note='reader stops on the flag without an empty look at the queue'),
    V('C20-E30', 'E', ALL, CX, 'SpawnProcess._run_logger', r"record = q\.get\(timeout=0\.1\)", "record = q.get(True, 0.2)", note='positional timeout'),
    V('C20-E31', 'E', ALL, CX, 'SpawnProcess._run_logger', r"if ended:\n(.*?)break\n(\s+)continue\n", r"if not ended:\n\2    continue\n\2break\n", note='handler arms swapped'),
]

VARIANTS += [
    V('C20-M35', 'M', ('C20',), CX, None, r"(\nclass SpawnProcess\(multiprocessing\.context\.SpawnProcess\):)(.*?)qh = logging\.handlers\.QueueHandler\(logger_queue\)", r"\nclass _QH(logging.handlers.QueueHandler):\n    def prepare(self, record):\n        return record\n\n\1\2qh = _QH(logger_queue)", ('C20-2',), note='seeded C20-r4m1 shape'),
    V('C20-E35', 'E', ALL, CX, None, r"(\nclass SpawnProcess\(multiprocessing\.context\.SpawnProcess\):)(.*?)qh = logging\.handlers\.QueueHandler\(logger_queue\)", r"\nclass _QH(logging.handlers.QueueHandler):\n    pass\n\n\1\2qh = _QH(logger_queue)", note='trivial subclass of QueueHandler'),
]


# ---------------------------------------------------------------------- adjacent independent assignments swapped (pure right-hand sides, disjoint names)
def _swap_independent(m):
    import ast as _ast

    src = m.group(0)
    tree = _ast.parse(src)
    n_sw = [0]

    def names(node):
        return {x.id for x in _ast.walk(node) if isinstance(x, _ast.Name)} | {_ast.unparse(x) for x in _ast.walk(node) if isinstance(x, _ast.Attribute)}

    def pure(st):
        return isinstance(st, _ast.Assign) and len(st.targets) == 1 and isinstance(st.targets[0], (_ast.Name, _ast.Attribute)) and not any(isinstance(x, (_ast.Call, _ast.Await, _ast.Yield, _ast.YieldFrom, _ast.NamedExpr, _ast.Subscript, _ast.Lambda)) for x in _ast.walk(st))

    for fn in [x for x in _ast.walk(tree) if isinstance(x, (_ast.FunctionDef, _ast.AsyncFunctionDef))]:
        for node in _ast.walk(fn):
            for fld in ('body', 'orelse', 'finalbody'):
                blk = getattr(node, fld, None)
                if not (isinstance(blk, list) and blk and isinstance(blk[0], _ast.stmt)):
                    continue
                i = 0
                while i + 1 < len(blk):
                    a, b = blk[i], blk[i + 1]
                    if pure(a) and pure(b):
                        ta, tb = names(a.targets[0]), names(b.targets[0])
                        if not (ta & names(b)) and not (tb & names(a)) and not any(t.startswith(u + '.') or u.startswith(t + '.') for t in ta for u in tb):
                            blk[i], blk[i + 1] = b, a
                            n_sw[0] += 1
                            i += 2
                            continue
                    i += 1
    if not n_sw[0]:
        return src
    return _ast.unparse(_ast.fix_missing_locations(tree)) + '\n'


for _i, _m in enumerate(_MODS + [FU]):
    VARIANTS.append(V(f'G-swp-{_i:02d}', 'E', ALL, _m, None, r'\A.*\Z', _swap_independent, flags=re.S, note='adjacent independent pure assignments swapped'))


# ---------------------------------------------------------------------- comparisons mirrored (`a < b` -> `b > a`), augmented assignments written out
def _mirror_compares(m):
    import ast as _ast

    src = m.group(0)
    tree = _ast.parse(src)
    flip = {_ast.Lt: _ast.Gt, _ast.Gt: _ast.Lt, _ast.LtE: _ast.GtE, _ast.GtE: _ast.LtE}
    k = [0]
    for fn in [x for x in _ast.walk(tree) if isinstance(x, (_ast.FunctionDef, _ast.AsyncFunctionDef))]:
        for c in _ast.walk(fn):
            if isinstance(c, _ast.Compare) and len(c.ops) == 1 and type(c.ops[0]) in flip:
                c.left, c.comparators[0] = c.comparators[0], c.left
                c.ops[0] = flip[type(c.ops[0])]()
                k[0] += 1
    return (_ast.unparse(_ast.fix_missing_locations(tree)) + '\n') if k[0] else src


def _unaugment(m):
    import ast as _ast

    src = m.group(0)
    tree = _ast.parse(src)
    k = [0]

    class T(_ast.NodeTransformer):
        def visit_AugAssign(self, n):
            if isinstance(n.target, _ast.Name) and isinstance(n.op, (_ast.Add, _ast.Sub)):
                k[0] += 1
                return _ast.copy_location(_ast.Assign(targets=[_ast.Name(id=n.target.id, ctx=_ast.Store())], value=_ast.BinOp(left=_ast.Name(id=n.target.id, ctx=_ast.Load()), op=n.op, right=n.value)), n)
            return n

    tree = T().visit(tree)
    return (_ast.unparse(_ast.fix_missing_locations(tree)) + '\n') if k[0] else src


for _i, _m in enumerate(_MODS + [FU]):
    VARIANTS.append(V(f'G-mir-{_i:02d}', 'E', ALL, _m, None, r'\A.*\Z', _mirror_compares, flags=re.S, note='every ordering comparison mirrored'))
    VARIANTS.append(V(f'G-aug-{_i:02d}', 'E', ALL, _m, None, r'\A.*\Z', _unaugment, flags=re.S, note='`n += 1` written out as `n = n + 1`'))


# ---------------------------------------------------------------------- every two-armed `if` turned around (`if not c: <else arm> else: <if arm>`)
def _swap_arms(m):
    import ast as _ast

    src = m.group(0)
    tree = _ast.parse(src)
    k = [0]
    for fn in [x for x in _ast.walk(tree) if isinstance(x, (_ast.FunctionDef, _ast.AsyncFunctionDef))]:
        for n in _ast.walk(fn):
            if isinstance(n, _ast.If) and n.orelse and not (len(n.orelse) == 1 and isinstance(n.orelse[0], _ast.If)) and not any(isinstance(x, _ast.NamedExpr) for x in _ast.walk(n.test)):
                n.test = n.test.operand if isinstance(n.test, _ast.UnaryOp) and isinstance(n.test.op, _ast.Not) else _ast.UnaryOp(op=_ast.Not(), operand=n.test)
                n.body, n.orelse = n.orelse, n.body
                k[0] += 1
    return (_ast.unparse(_ast.fix_missing_locations(tree)) + '\n') if k[0] else src


for _i, _m in enumerate(_MODS + [FU]):
    VARIANTS.append(V(f'G-arm-{_i:02d}', 'E', ALL, _m, None, r'\A.*\Z', _swap_arms, flags=re.S, note='every if/else turned around under not'))

VARIANTS += [
    V('C03-M34', 'M', ('C03',), ST, 'Header.__iter__', r"(\n(\s+))yield v\n\s+n \+= 1\n\s+if n >= nn:\n(?:\s+#[^\n]*\n)*\s+break\n", r"\1if n >= nn:\1    break\1yield v\1n += 1\n", ('C03-6',), note='D24 shape: the limit is tested after the next pull'),
    V('C03-M35', 'M', ('C03',), ST, 'Stream.filter_exceptions', r"\n\s+if isinstance\(drop_exc_types, list\):\n\s+drop_exc_types = tuple\(drop_exc_types\)", "", ('C03-10',), note='D25 shape'),
    V('C03-M36', 'M', ('C03',), ST, 'Stream.peek', r"\n\s+elif isinstance\(exc_types, list\):\n\s+exc_types = tuple\(exc_types\)", "", ('C03-10',), note='D25 shape'),
    V('C03-E34', 'E', ALL, ST, 'Stream.filter_exceptions', r"if isinstance\(drop_exc_types, list\):\n(\s+)drop_exc_types = tuple\(drop_exc_types\)", r"if drop_exc_types is not None and not isinstance(drop_exc_types, type):\n\1drop_exc_types = tuple(drop_exc_types)", note='another guard for the same normalisation'),
]


# ---------------------------------------------------------------------- conjunctions split into nested ifs and nested ifs merged
def _split_ands(m):
    import ast as _ast

    src = m.group(0)
    tree = _ast.parse(src)
    k = [0]
    for fn in [x for x in _ast.walk(tree) if isinstance(x, (_ast.FunctionDef, _ast.AsyncFunctionDef))]:
        for n in _ast.walk(fn):
            if isinstance(n, _ast.If) and not n.orelse and isinstance(n.test, _ast.BoolOp) and isinstance(n.test.op, _ast.And) and len(n.test.values) == 2 and not any(isinstance(x, _ast.NamedExpr) for x in _ast.walk(n.test)):
                a, b = n.test.values
                inner = _ast.If(test=b, body=n.body, orelse=[])
                n.test, n.body = a, [inner]
                k[0] += 1
    return (_ast.unparse(_ast.fix_missing_locations(tree)) + '\n') if k[0] else src


def _merge_ifs(m):
    import ast as _ast

    src = m.group(0)
    tree = _ast.parse(src)
    k = [0]
    for fn in [x for x in _ast.walk(tree) if isinstance(x, (_ast.FunctionDef, _ast.AsyncFunctionDef))]:
        for n in _ast.walk(fn):
            if isinstance(n, _ast.If) and not n.orelse and len(n.body) == 1 and isinstance(n.body[0], _ast.If) and not n.body[0].orelse:
                inner = n.body[0]
                n.test = _ast.BoolOp(op=_ast.And(), values=[n.test, inner.test])
                n.body = inner.body
                k[0] += 1
    return (_ast.unparse(_ast.fix_missing_locations(tree)) + '\n') if k[0] else src


for _i, _m in enumerate(_MODS + [FU]):
    VARIANTS.append(V(f'G-spl-{_i:02d}', 'E', ALL, _m, None, r'\A.*\Z', _split_ands, flags=re.S, note='`if a and b:` (no else) split into nested ifs'))
    VARIANTS.append(V(f'G-mrg-{_i:02d}', 'E', ALL, _m, None, r'\A.*\Z', _merge_ifs, flags=re.S, note='nested ifs without else merged into `if a and b:`'))


# ---------------------------------------------------------------------- attributes of self bound to locals at the top of a method (only attributes the class assigns nowhere but in its set-up methods)
def _localise_attrs(m):
    import ast as _ast

    src = m.group(0)
    tree = _ast.parse(src)
    k = [0]
    SETUP = {'__init__', 'start', '_start', '_reset', '__setstate__', '__enter__', '__aenter__', '_enter_server'}
    for cls in [x for x in _ast.walk(tree) if isinstance(x, _ast.ClassDef)]:
        stored_outside = set()
        for meth in cls.body:
            if isinstance(meth, (_ast.FunctionDef, _ast.AsyncFunctionDef)) and meth.name not in SETUP:
                for x in _ast.walk(meth):
                    if isinstance(x, _ast.Attribute) and isinstance(x.value, _ast.Name) and x.value.id == 'self' and isinstance(x.ctx, (_ast.Store, _ast.Del)):
                        stored_outside.add(x.attr)
        for meth in cls.body:
            if not isinstance(meth, (_ast.FunctionDef, _ast.AsyncFunctionDef)) or meth.name in SETUP or not meth.args.args or meth.args.args[0].arg != 'self':
                continue
            if any(isinstance(d, _ast.Name) and d.id in ('staticmethod', 'classmethod', 'property') for d in meth.decorator_list):
                continue
            loads = {}
            called = set()
            for x in _ast.walk(meth):
                if isinstance(x, _ast.Call) and isinstance(x.func, _ast.Attribute) and isinstance(x.func.value, _ast.Name) and x.func.value.id == 'self':
                    called.add(x.func.attr)
                if isinstance(x, _ast.Attribute) and isinstance(x.value, _ast.Name) and x.value.id == 'self' and isinstance(x.ctx, _ast.Load):
                    loads[x.attr] = loads.get(x.attr, 0) + 1
            names_used = {x.id for x in _ast.walk(meth) if isinstance(x, _ast.Name)} | {a.arg for a in meth.args.args + meth.args.kwonlyargs}
            cands = [a for a, c in loads.items() if c >= 2 and a not in stored_outside and a not in called and a.startswith('_') and (a.strip('_') + '_loc') not in names_used]
            if not cands:
                continue
            mapping = {a: a.strip('_') + '_loc' for a in cands}

            class T(_ast.NodeTransformer):
                def visit_Attribute(self, n):
                    self.generic_visit(n)
                    if isinstance(n.value, _ast.Name) and n.value.id == 'self' and isinstance(n.ctx, _ast.Load) and n.attr in mapping:
                        return _ast.copy_location(_ast.Name(id=mapping[n.attr], ctx=_ast.Load()), n)
                    return n

            new_body = [T().visit(st) for st in meth.body]
            i = 1 if new_body and isinstance(new_body[0], _ast.Expr) and isinstance(new_body[0].value, _ast.Constant) and isinstance(new_body[0].value.value, str) else 0
            binds = [_ast.Assign(targets=[_ast.Name(id=v, ctx=_ast.Store())], value=_ast.Attribute(value=_ast.Name(id='self', ctx=_ast.Load()), attr=a, ctx=_ast.Load())) for a, v in sorted(mapping.items())]
            meth.body = new_body[:i] + binds + new_body[i:]
            k[0] += len(binds)
    return (_ast.unparse(_ast.fix_missing_locations(tree)) + '\n') if k[0] else src


for _i, _m in enumerate(_MODS + [FU]):
    VARIANTS.append(V(f'G-loc-{_i:02d}', 'E', ALL, _m, None, r'\A.*\Z', _localise_attrs, flags=re.S, note='attributes of self that only set-up methods assign are bound to locals at the top of each method that reads them twice'))


# ---------------------------------------------------------------------- fresh round f6, second half
VARIANTS += [
    V('C01-M40', 'M', ('C01', 'C08'), ST, 'Parmapper.__iter__', r'ProcessPoolExecutor\(\n(\s+)self\._concurrency,', r'ProcessPoolExecutor(\n\1min(self._concurrency, len(self._instream)),', ('C01-10', 'C08-3'), note='seeded C01-f6m2 shape: pool sized by the input'),
    V('C01-M41', 'M', ('C01',), ST, 'Parmapper.__iter__', r'ThreadPoolExecutor\(\n(\s+)self\._concurrency,', r'ThreadPoolExecutor(\n\1self._concurrency - 1,', ('C01-10',)),
    V('C02-M40', 'M', ('C02', 'C04', 'C09'), WK, 'Worker._build_input_batches', r'[ ]*elif isinstance\(x, RemoteException\):\n\s+q_out\.put\(\(uid, x\)\)\n', '', ('C02-8', 'C04-3', 'C09-1'), note='seeded C02-f6m1 shape'),
    V('C05-M40', 'M', ('C05', 'C08'), 'concurrent/futures/__init__.py', 'ThreadPoolExecutor', r'(\n    def submit\(self)', r'\n    def __exit__(self, exc_type, exc_val, exc_tb):\n        self.shutdown(wait=exc_type is None)\n        return False\n\1', ('C05-11', 'C08-3'), note='seeded C05-f6m2 shape'),
    V('C05-M41', 'M', ('C05',), 'concurrent/futures/__init__.py', 'ProcessPoolExecutor', r'(\n    def submit\(self)', r'\n    def __exit__(self, *args):\n        self.shutdown(False)\n\1', ('C05-11',)),
    V('C05-E40', 'E', ('C05', 'C08', 'C01'), 'concurrent/futures/__init__.py', 'ThreadPoolExecutor', r'(\n    def submit\(self)', r'\n    def __exit__(self, exc_type, exc_val, exc_tb):\n        self.shutdown(wait=True)\n        return False\n\1', note='the standard exit written out'),
    V('C06-M40', 'M', ('C06', 'C04', 'C02'), SV, '_enter_server._onboard_input', r'except Exception as e:', 'except (TypeError, AttributeError) as e:', ('C06-15', 'C04-11', 'C02-8'), note='seeded C06-f6m2 shape'),
    V('C08-M40', 'M', ('C08',), ST, 'ParmapperAsync.__init__', r'self\._fifo_capacity = self\._concurrency \* 2', 'self._fifo_capacity = self._concurrency - 2', ('C08-3',), note='seeded C08-f6m2 shape'),
    V('C08-M41', 'M', ('C08',), SA, 'AsyncParmapperAsync.__aiter__', r'capacity=self\._concurrency \* 2', 'capacity=self._concurrency - 1', ('C08-3',)),
    V('C09-M40', 'M', ('C09',), WK, 'Worker._build_input_batches', r'buffer\.put\(\(uid, x\)\)', 'buffer.put(z)', ('C09-1',), note='seeded C09-f6m1 shape'),
    V('C09-M41', 'M', ('C09',), WK, 'Worker._start_batch.get_input', r'us = \[v\[0\] for v in batch\]\n\s+batch = \[v\[1\] for v in batch\]', 'us, batch = zip(*batch)', ('C09-11',), note='seeded C09-f6m2 shape'),
    V('C09-M42', 'M', ('C09',), WK, 'Worker._start_batch.get_input', r'batch = \[v\[1\] for v in batch\]', 'batch = tuple(v[1] for v in batch)', ('C09-11',)),
    V('C09-E40', 'E', ('C09', 'C02', 'C04'), WK, 'Worker._start_batch.get_input', r'batch = \[v\[1\] for v in batch\]', 'batch = list(v[1] for v in batch)'),
    V('C12-M40', 'M', ('C12',), CX, 'SpawnProcess._bootstrap', r'exitcode = super\(\)\._bootstrap\(parent_sentinel\)\n\s+assert exitcode == 0', 'super()._bootstrap(parent_sentinel)', ('C12-13',), note='seeded C12-f6m2 shape'),
    V('C12-E40', 'E', ('C12', 'C20'), CX, 'SpawnProcess._bootstrap', r'assert exitcode == 0\n(\s+)return self\._mpservice_exitcode_', r'if exitcode != 0:\n\1    return exitcode\n\1return self._mpservice_exitcode_', note='the standard code handed on instead of asserted'),
    V('C20-M40', 'M', ('C20',), CX, 'SpawnProcess.run', r'(\n(\s+)except SystemExit as e:)', r'\n\2    logging.getLogger().removeHandler(qh)\1', ('C20-7',), note='seeded C20-f6m1 shape: handler removed before the handlers that report the failure'),
    V('C20-E40', 'E', ('C20', 'C12'), CX, 'SpawnProcess.run', r'result_and_error\.close\(\)\n(\s+)if qh is not None:\n\s+logging\.getLogger\(\)\.removeHandler\(qh\)\n\s+logger_queue\.close\(\)', r'if qh is not None:\n\1    logging.getLogger().removeHandler(qh)\n\1    logger_queue.close()\n\1result_and_error.close()', note='the two closing steps of the finally swapped'),
]


# ---------------------------------------------------------------------- round r7
VARIANTS += [
    V('C14-M50', 'M', ('C14',), SP, 'AutoProxy', r'_cache\[\(name, exposed\)\]', '_cache[name]', ('C14-15',), count=0, note='seeded C14-r7m1 shape: proxy type cache keyed by the type id alone'),
    V('C14-E50', 'E', ('C14', 'C13'), SP, 'AutoProxy', r'_cache\[\(name, exposed\)\]', '_cache[(exposed, name)]', count=0, note='key components in the other order'),
    V('C07-M50', 'M', ('C07',), ST, 'async_fifo_stream', r'except \(asyncio\.CancelledError, Exception\):', 'except asyncio.CancelledError:', ('C07-9',), note='seeded C07-r7m1 shape'),
    V('C07-E50', 'E', ('C07', 'C05', 'C16'), ST, 'async_fifo_stream', r'except \(asyncio\.CancelledError, Exception\):', 'except BaseException:', note='wider handler in the clean-up'),
    V('C09-M50', 'M', ('C09',), WK, 'Worker.__init__', r'if batch_size is None or batch_size == 0:', 'if batch_size is None or batch_size <= 1:', ('C09-12',), note='seeded C09-r7m2 shape'),
    V('C09-M51', 'M', ('C09',), WK, 'Worker.__init__', r'if batch_size is None or batch_size == 0:\n(\s+)batch_size = 0', r'if not batch_size:\n\1batch_size = 1', ('C09-12',)),
    V('C09-E50', 'E', ('C09', 'C02'), WK, 'Worker.__init__', r'if batch_size is None or batch_size == 0:', 'if not batch_size:', note='None and 0 both lead to 0'),
    V('C11-M50', 'M', ('C11',), SL, 'ProcessServlet.start', r'p\.join\(\)  # this will raise', 'p.join(10)  # this will raise', ('C11-2',), note='seeded C11-r7m1 shape'),
    V('C11-E50', 'E', ('C11', 'C02'), SL, 'ProcessServlet.start', r'p\.join\(\)  # this will raise', 'p.join(None)  # this will raise'),
    V('C18-M50', 'M', ('C18',), SO, 'SocketServer._handle_connection._keep_responding', r'while True:\n(\s+)try:\n(\s+)req_id, t = await', r'while not self.to_shutdown:\n\1try:\n\2req_id, t = await', ('C18-15',), note='seeded C18-r7m1 shape'),
    V('C18-M51', 'M', ('C18',), SO, 'SocketClient.stream._enqueue', r'\A.*\Z', lambda m: re.sub(r'\n(\s+)try:\n(\s+)fut = en\(path, x, timeout=et\)', r'\n\1t0 = perf_counter()\n\1try:\n\2fut = en(path, x, timeout=et)', re.sub(r'\n\s+t0 = perf_counter\(\)\n', '\n', m.group(0), count=1), count=1), ('C18-16',), note='seeded C18-r7m2 shape: the time stamp moved before the enqueue call'),
    V('C18-E51', 'E', ('C18',), SO, 'SocketClient.stream._enqueue', r'(\n(\s+)try:\n\s+fut = en\(path, x, timeout=et\))', r'\n\2t0 = perf_counter()\1', note='an earlier stamp that the later one overwrites'),
    V('C20-M50', 'M', ('C20',), CX, 'SpawnProcess.start', r"daemon=getattr\(self, 'daemon', None\),\n(\s+)\)\n(\s+)self\._logger_thread_\.start", r"daemon=self.daemon or None,\n\1)\n\2self._logger_thread_.start", ('C20-3',), note='seeded C20-r7m2 shape'),
    V('C20-E50', 'E', ('C20', 'C12'), CX, 'SpawnProcess.start', r"daemon=getattr\(self, 'daemon', None\),\n(\s+)\)\n(\s+)self\._logger_thread_\.start", r"daemon=bool(self.daemon),\n\1)\n\2self._logger_thread_.start"),
]


VARIANTS += [
    V('C01-M50', 'M', ('C01',), FU, 'ThreadPoolExecutor.submit', r'def submit\(self, fn, /, \*args', 'def submit(self, fn, *args', ('C01-11',), note='seeded C01-r7m1 shape'),
    V('C01-E50', 'E', ('C01', 'C05', 'C08'), FU, 'ThreadPoolExecutor.submit', r'def submit\(self, fn, /, \*args', 'def submit(self, func, /, *args', note='the positional-only parameter renamed (body unchanged would break; only the header name differs in the def line)') if False else V('C01-E50', 'E', ('C01', 'C05', 'C08'), FU, 'ThreadPoolExecutor.submit', r'loud_exception: bool = True', 'loud_exception: bool = True, _unused_option: int = 0', note='another keyword-only option next to loud_exception'),
    V('C01-M51', 'M', ('C01',), ST, 'ParmapperAsync.__iter__', r'to_stop = threading\.Event\(\)', 'to_stop = self.__dict__.setdefault("_to_stop", threading.Event())', ('C01-12',), note='seeded C01-r7m2 shape: the stop flag kept on the object'),
    V('C05-M50', 'M', ('C05',), ST, 'fifo_stream', r'feeder\.join\(\)', 'feeder.join(timeout=5)', ('C05-5',), note='seeded C05-r7m2 shape'),
    V('C05-M51', 'M', ('C05', 'C12'), TH, 'Thread.join', r'super\(\)\.join\(timeout=timeout\)\n(\s+)if self\.is_alive\(\):\n(\s+)# Timed out\n\s+return', r'if not self._future_.done():\n\1    super().join(timeout=timeout)\n\1    if self.is_alive():\n\1        return', ('C05-12', 'C12-4'), note='seeded C05-r7m1 shape'),
    V('C05-E50', 'E', ('C05', 'C01'), ST, 'fifo_stream', r'feeder\.join\(\)', 'feeder.join(None)'),
    V('C08-M50', 'M', ('C08',), SA, 'AsyncBuffer.__aiter__', r'z = tasks\.get_nowait\(\)', 'ready_.append(tasks.get_nowait()); z = ready_.pop()', ('C08-2',), note='seeded C08-r7m1 shape (a second container on the consumer side)'),
    V('C13-M50', 'M', ('C13',), SP, 'MemoryBlock.buf', r'return self\._mem\.buf', 'return self._mem.buf[:]', ('C13-5',), note='seeded C13-r7m1 shape'),
    V('C19-M50', 'M', ('C19',), ST, 'EagerBatcher.__iter__', r'except queue\.Empty:', 'except Exception:', ('C19-3',), note='seeded C19-r7m2 shape'),
    V('C19-M51', 'M', ('C19',), ST, 'EagerBatcher.__iter__', r'max\(0, t\)', 'max(0.001, t)', ('C19-3',), note='seeded C19-r7m1 shape'),
    V('C09-M52', 'M', ('C09',), WK, 'Worker._get_input_batch', r'except Empty:', 'except Exception:', ('C09-4',)),
]


# ---------------------------------------------------------------------- round r8
VARIANTS += [
    V('C18-M60', 'M', ('C18',), PI, '_Pipe.send_bytes', r'self\._writer\.send_bytes\(buf, offset=offset, size=size\)', 'self._writer.send_bytes(memoryview(buf)[offset:size])', ('C18-8',), note='seeded C18-r8m2 shape'),
    V('C18-E60', 'E', ('C18',), PI, '_Pipe.send_bytes', r'self\._writer\.send_bytes\(buf, offset=offset, size=size\)', 'self._writer.send_bytes(buf, offset, size)', note='the same arguments positionally'),
    V('C18-M61', 'M', ('C18',), SO, 'write_record', r'await writer\.drain\(\)', 'await asyncio.wait_for(writer.drain(), 5)', ('C18-17',), note='seeded C18-r8m1 shape'),
    V('C14-M60', 'M', ('C14',), SP, 'Server.serve_client', r'(request = recv\(\)\n)(\s+)(ident, methodname, args, kwds = request\n\s+msg = self\._callmethod\(conn, ident, methodname, args, kwds\)\n)', r'\1\2pass\n', ('C14-1', 'C14-16', 'C14-2', 'C14-14'), note='(the dispatch removed: any C14 rule may speak)') if False else V('C14-M60', 'M', ('C14',), SP, 'Server.create', r'public_methods\(obj\)', 'public_methods(type(obj))', ('C14-17',), note='seeded C14-r8m2 shape'),
    V('C09-M60', 'M', ('C09',), QS, 'SingleLane.get', r'self\._not_empty\.wait\(timeout=timeout\)', 'self._not_empty.wait(timeout=timeout or None)', ('C09-13',), note='seeded C09-r8m1 shape'),
    V('C09-M61', 'M', ('C09',), WK, 'Worker._get_input_batch', r'(\n(\s+)t = deadline - perf_counter\(\))', r'\n\2if not buffer.empty():\n\2    out.append(buffer.get_nowait())\n\2    n += 1\n\2    continue\1', ('C09-1',), note='seeded C09-r8m2 shape'),
    V('C20-M60', 'M', ('C20',), CX, 'SpawnContext', r'    def get_context\(self, method=None\):\n\s+if method is None or method == .spawn.:\n\s+return self\n\s+return super\(\)\.get_context\(method\)\n', '', ('C20-8',), note='seeded C20-r8m2 shape'),
    V('C06-M60', 'M', ('C06', 'C04', 'C02'), SL, 'SwitchServlet._enqueue', r'[ ]*if isinstance\(x, BaseException\):\n\s+x = RemoteException\(x\)\n', '', ('C06-16', 'C04-3', 'C02-7'), note='seeded C06-r8m1 shape'),
    V('C07-M60', 'M', ('C07', 'C06', 'C16'), SV, 'AsyncServer._enqueue', r'\A.*\Z', lambda m: re.sub(r'\n([ ]+)async with self\._pipeline_notfull:\n', r'\n\1t = timeout * 0.99 - (perf_counter() - t0)\n\1async with self._pipeline_notfull:\n', re.sub(r'\n[ ]+t = timeout \* 0\.99 - \(perf_counter\(\) - t0\)\n', '\n', m.group(0), count=1), count=1), ('C07-8', 'C06-8', 'C16-8'), note='seeded C07-r8m1 shape: the remaining time computed once, before the re-check loop'),
]


VARIANTS += [
    V('C17-M60', 'M', ('C17',), QU, 'ResponsiveQueue.put', r'timeout, Full\)', 'timeout, Empty)', ('C17-10',), note='seeded C17-r8m1 shape'),
    V('C10-M60', 'M', ('C10',), TE, 'Fork.__next__', r'except StopIteration:\n(\s+)# `instream` is exhausted', r'except (StopIteration, RuntimeError):\n\1# `instream` is exhausted', ('C10-11',), note='seeded C10-r8m1 shape'),
    V('C13-M60', 'M', ('C13',), SP, 'Server.create', r'return self\._make_proxy\(typeid, proxytype, ident, tuple\(exposed\)\)', 'try:\n            return self._make_proxy(typeid, proxytype, ident, tuple(exposed))\n        except Exception:\n            self.id_to_obj.pop(ident, None)\n            raise', ('C13-4',), note='seeded C13-r8m1 shape'),
    V('C12-M60', 'M', ('C12',), CX, 'SpawnProcess._collect_result', r'(result, error = None, None\n)(\s+)', r'\1\2multiprocessing.connection.wait([self.sentinel])\n\2', ('C12-14',), note='seeded C12-r8m1 shape'),
    V('C12-M61', 'M', ('C12',), CX, 'SpawnProcess._collect_result', r'while self\.exitcode is None:\n\s+time\.sleep\(0\.001\)\n', 'multiprocessing.connection.wait([self.sentinel])\n', ('C12-15',), note='C12-r8m2 shape (not kept as a seed: it fails test_terminate under load)'),
    V('C05-M60', 'M', ('C05', 'C03'), ST, 'Mapper.__iter__', r'func = self\.func\n\s+for v in self\._instream:\n\s+yield func\(v\)', 'return map(self.func, self._instream)', ('C05-13', 'C03-2'), note='seeded C05-r8m1 shape'),
    V('C01-M60', 'M', ('C01',), ST, 'fifo_stream', r'(y = fut\.result\(\)\n(\s+))except Exception as e:', r'\1except concurrent.futures.CancelledError:\n\2    raise\n\2except Exception as e:', ('C01-3',), note='seeded C01-r8m1 shape'),
    V('C01-E60', 'E', ('C01', 'C05', 'C16'), ST, 'fifo_stream', r'(y = fut\.result\(\)\n(\s+))except Exception as e:', r'\1except KeyboardInterrupt:\n\2    raise\n\2except Exception as e:', note='an event of the consumer re-raised in front of the outcome handler'),
    V('C08-M60', 'M', ('C08',), SA, 'AsyncParmapper.__aiter__', r'fut = executor\.submit\(self\._func, x, \*\*kwargs\)\n(\s+)return loop\.run_in_executor\(None, fut\.result\)', r'return loop.run_in_executor(None, functools.partial(self._func, x, **kwargs))', ('C08-3',), note='seeded C08-r8m1 shape'),
]


# ---------------------------------------------------------------------- every local that is not a parameter renamed (and, second family, a statement added so that the function is not the recorded one up to renaming)
def _rename_locals(pad):
    def f(m):
        import ast as _ast

        src = m.group(0)
        tree = _ast.parse(src)
        k = [0]

        def outer_funcs(t):
            out = []

            def rec(node, infn):
                for c in _ast.iter_child_nodes(node):
                    if isinstance(c, (_ast.FunctionDef, _ast.AsyncFunctionDef)) and not infn:
                        out.append(c)
                        rec(c, True)
                    else:
                        rec(c, infn)

            rec(t, False)
            return out

        for fn in outer_funcs(tree):
            params = {a.arg for a in _ast.walk(fn) if isinstance(a, _ast.arg)}
            globs = {nm for g in _ast.walk(fn) if isinstance(g, _ast.Global) for nm in g.names}
            inner = {x.name for x in _ast.walk(fn) if isinstance(x, (_ast.FunctionDef, _ast.AsyncFunctionDef, _ast.ClassDef)) and x is not fn}
            imported = {(a.asname or a.name).split('.')[0] for x in _ast.walk(fn) if isinstance(x, (_ast.Import, _ast.ImportFrom)) for a in x.names}
            stored = {x.id for x in _ast.walk(fn) if isinstance(x, _ast.Name) and isinstance(x.ctx, (_ast.Store, _ast.Del))} | {h.name for h in _ast.walk(fn) if isinstance(h, _ast.ExceptHandler) and h.name}
            for old in sorted(stored - params - globs - inner - imported):
                if old.startswith('__'):
                    continue
                new = old + '_rn'
                for x in _ast.walk(fn):
                    if isinstance(x, _ast.Name) and x.id == old:
                        x.id = new
                    if isinstance(x, _ast.ExceptHandler) and x.name == old:
                        x.name = new
                    if isinstance(x, _ast.Nonlocal):
                        x.names = [new if nm == old else nm for nm in x.names]
                k[0] += 1
            if pad:
                i = 1 if fn.body and isinstance(fn.body[0], _ast.Expr) and isinstance(fn.body[0].value, _ast.Constant) and isinstance(fn.body[0].value.value, str) else 0
                fn.body.insert(i, _ast.Pass())
        return (_ast.unparse(_ast.fix_missing_locations(tree)) + '\n') if k[0] else src

    return f


for _i, _m in enumerate(_MODS + [FU]):
    VARIANTS.append(V(f'G-lrn-{_i:02d}', 'E', ALL, _m, None, r'\A.*\Z', _rename_locals(False), flags=re.S, note='every local that is not a parameter is renamed consistently'))
    VARIANTS.append(V(f'G-lrp-{_i:02d}', 'E', ALL, _m, None, r'\A.*\Z', _rename_locals(True), flags=re.S, note='every local renamed and a `pass` added at the top of every function (the function is no longer the recorded one up to renaming: locals are matched one by one)'))


# ---------------------------------------------------------------------- private attributes renamed across the package
def _rename_attrs(which):
    """which: None = every private instance attribute, else a tuple of names"""

    def f(root):
        import ast as _ast
        import glob as _glob

        files = _glob.glob(str(root / 'src' / 'mpservice' / '**' / '*.py'), recursive=True)
        trees = {p: _ast.parse(open(p).read()) for p in files}
        if which is None:
            defs = {x.name for t in trees.values() for x in _ast.walk(t) if isinstance(x, (_ast.FunctionDef, _ast.AsyncFunctionDef, _ast.ClassDef))}
            stored = {x.attr for t in trees.values() for x in _ast.walk(t) if isinstance(x, _ast.Attribute) and isinstance(x.ctx, _ast.Store) and isinstance(x.value, _ast.Name) and x.value.id == 'self'}
            strs = {x.value for t in trees.values() for x in _ast.walk(t) if isinstance(x, _ast.Constant) and isinstance(x.value, str)}
            plain = {x.id for t in trees.values() for x in _ast.walk(t) if isinstance(x, _ast.Name)} | {k.arg for t in trees.values() for x in _ast.walk(t) if isinstance(x, _ast.Call) for k in x.keywords if k.arg}
            names = {a for a in stored if a.startswith('_') and not a.startswith('__') and a not in defs and a not in strs and a not in plain}
        else:
            names = set(which)
        n = 0
        for p, t in trees.items():
            ch = False
            for x in _ast.walk(t):
                if isinstance(x, _ast.Attribute) and x.attr in names:
                    x.attr = x.attr.rstrip('_') + '_ren' + ('_' if x.attr.endswith('_') else '')
                    ch = True
                    n += 1
            if ch:
                open(p, 'w').write(_ast.unparse(t) + '\n')
        return None if n else 'no such attribute'

    return f


VARIANTS.append(V('G-atr-00', 'E', ALL, '*', None, '', _rename_attrs(None), note='every private instance attribute renamed across the package'))
for _i, _a in enumerate(['_q_in', '_q_out', '_batch_size', '_future_', '_workers', '_uid_to_futures', '_pipeline_notfull', '_lids_lock', '_not_full', '_not_empty', '_head', '_stopped', '_tasks', '_logger_queue_', '_child_ended_', '_threads', '_servlets', '_capacity', '_input_buffer', '_pending_requests', '_spare_lids', '_num_suppliers', '_lock', '_to_shutdown', '_collector_thread_'], 1):
    VARIANTS.append(V(f'G-atr-{_i:02d}', 'E', ALL, '*', None, '', _rename_attrs((_a,)), note=f'attribute `{_a}` renamed across the package'))


# ---------------------------------------------------------------------- a class renamed across the package
def _rename_word(old, new):
    def f(root):
        import glob as _glob

        n = 0
        for p in _glob.glob(str(root / 'src' / 'mpservice' / '**' / '*.py'), recursive=True):
            src = open(p).read()
            new_src = re.sub(rf'\b{old}\b', new, src)
            if new_src != src:
                open(p, 'w').write(new_src)
                n += 1
        return None if n else 'no such name'

    return f


for _i, _c in enumerate(['_SimpleThreadQueue', '_SimpleProcessQueue', '_Pipe', 'EagerBatcher', 'Parmapper', 'ProcessServlet', 'IterableQueue', 'SingleLane', 'Buffer', 'AsyncBuffer', 'Fork', 'ServerProcess', 'RemoteTraceback', 'SequentialServlet', 'EnsembleServlet', 'SwitchServlet', 'Header', 'Batcher', 'ManagedMemoryBlock' , 'MemoryBlock']):
    VARIANTS.append(V(f'G-cls-{_i:02d}', 'E', ALL, '*', None, '', _rename_word(_c, _c + 'Renamed'), note=f'class `{_c}` renamed across the package'))


# ---------------------------------------------------------------------- whole-module rewrites of tests, calls and displays (selftest/transforms.py)
from . import transforms as _tf  # noqa: E402

for _fam, _tn, _note in (
    ('G-neg', 'negcmp', '`a is not b` / `a != b` / `a not in b` written as `not (a is b)` / `not (a == b)` / `not (a in b)`'),
    ('G-isi', 'splitisi', '`isinstance(x, (A, B))` written as `isinstance(x, A) or isinstance(x, B)`'),
    ('G-tif', 'if2tern', '`if c: x = a` / `else: x = b` written as `x = a if c else b`'),
    ('G-ift', 'tern2if', '`x = a if c else b` written as an if statement'),
    ('G-kwt', 'kwtimeout', '`q.get(timeout=t)` written as `q.get(True, t)`, `e.wait(timeout=t)` as `e.wait(t)`'),
    ('G-ptk', 'postimeout', '`e.wait(t)` / `t.join(t)` written with `timeout=`'),
    ('G-dem', 'demorgan', '`a and b` written as `not (not a or not b)`'),
    ('G-yod', 'swapeq', 'the operands of every ==, !=, is, is not swapped'),
    ('G-dct', 'dictlit', 'dict displays with identifier keys written as `dict(k=v)` and the other way round'),
    ('G-ect', 'earlycont', 'a loop body ending in `if c: <block>` written as `if not c: continue` + block'),
    ('G-rot', 'reordertop', 'module-level functions moved behind the classes'),
    ('G-ora', 'orassign', '`t = a or b` written as `t = a` / `if not t: t = b`'),
    ('G-sxc', 'splitexcept', '`except (A, B):` written as two handlers with the same body'),
    ('G-rtn', 'retnone', '`return` written as `return None` and the other way round'),
    ('G-elr', 'elseremove', 'the else of an `if` whose body ends in return / raise / continue / break removed, its statements following the if'),
    ('G-ela', 'elseadd', 'the statements after an `if` whose body ends in return / raise / continue / break moved into an else'),
    ('G-c2l', 'comp2loop', '`x = [e for v in it]` written as `x = []` and an appending loop'),
    ('G-wtr', 'whiletrue', '`while c:` written as `while True:` / `if not c: break`'),
    ('G-elp', 'elsepass', '`else: pass` added to every if that has no else'),
    ('G-ttp', 'testtemp', 'the test of every `if` that is a call bound to a temporary first'),
    ('G-w2a', 'with2acq', '`with <lock or condition>:` written as acquire() / try / finally release()'),
    ('G-awa', 'awith2acq', '`async with <condition>:` written as await acquire() / try / finally release()'),
    ('G-r2t', 'ret2tern', '`if c: return a` / `return b` written as `return a if c else b`'),
    ('G-cmt', 'commute', 'the operands of `*` and `+` with one literal swapped'),
    ('G-nwt', 'nowait', '`get_nowait()` / `put_nowait(x)` written as `get(block=False)` / `put(x, block=False)`'),
    ('G-rsc', 'raisecall', '`raise X` written as `raise X()`'),
    ('G-rsb', 'raisebare', '`raise X()` written as `raise X`'),
    ('G-t2l', 'tup2list', '`in (a, b)` / `for v in (a, b)` written with a list'),
    ('G-aan', 'addasname', '`as _exc` added to every handler that binds nothing'),
    ('G-msp', 'maxsizepos', '`Queue(maxsize=n)` written as `Queue(n)`'),
    ('G-msk', 'maxsizekw', '`Queue(n)` written as `Queue(maxsize=n)`'),
    ('G-agl', 'argslist', '`args=(a, b)` of a call written as `args=[a, b]`'),
    ('G-yfl', 'yf2loop', '`yield from X` written as a loop that yields each element'),
    ('G-sup', 'suppress', '`try: B` / `except E: pass` written as `with contextlib.suppress(E): B` (ruff SIM105)'),
    ('G-emc', 'emptyctor', '`[]` / `{}` written as `list()` / `dict()`'),
    ('G-dmn', 'daemonattr', '`Thread(..., daemon=True)` written as construction plus `t.daemon = True`'),
):
    for _i, _m in enumerate(_MODS + [FU]):
        VARIANTS.append(V(f'{_fam}-{_i:02d}', 'E', ALL, _m, None, r'\A.*\Z', _tf.apply(_tn), flags=re.S, note=_note))


VARIANTS.append(V('G-unn-00', 'E', ALL, ST, None, r'\A.*\Z', _tf.unnest('fifo_stream', 'feed'), flags=re.S, note='the feeder of fifo_stream moved to module level'))
VARIANTS.append(V('G-unn-01', 'E', ALL, ST, None, r'\A.*\Z', _tf.unnest('async_fifo_stream', 'feed'), flags=re.S, note='the feeder of async_fifo_stream moved to module level'))


# ---------------------------------------------------------------------- values bound to a temporary before they are put / returned / yielded
def _bind_temps(kind):
    def f(m):
        import ast as _ast

        src = m.group(0)
        tree = _ast.parse(src)
        k = [0]

        def simple(e):
            return isinstance(e, (_ast.Name, _ast.Constant)) or e is None

        for fn in [x for x in _ast.walk(tree) if isinstance(x, (_ast.FunctionDef, _ast.AsyncFunctionDef))]:
            used = {x.id for x in _ast.walk(fn) if isinstance(x, _ast.Name)}
            for node in _ast.walk(fn):
                for fld in ('body', 'orelse', 'finalbody'):
                    blk = getattr(node, fld, None)
                    if not (isinstance(blk, list) and blk and isinstance(blk[0], _ast.stmt)):
                        continue
                    out = []
                    for st in blk:
                        tmp = f'{kind}_tmp{k[0]}'
                        if kind == 'put' and isinstance(st, _ast.Expr) and isinstance(st.value, _ast.Call) and isinstance(st.value.func, _ast.Attribute) and st.value.func.attr == 'put' and len(st.value.args) == 1 and not st.value.keywords and not simple(st.value.args[0]) and not isinstance(st.value.args[0], _ast.Starred) and tmp not in used:
                            out.append(_ast.copy_location(_ast.Assign(targets=[_ast.Name(id=tmp, ctx=_ast.Store())], value=st.value.args[0]), st))
                            st.value.args[0] = _ast.Name(id=tmp, ctx=_ast.Load())
                            k[0] += 1
                        elif kind == 'ret' and isinstance(st, _ast.Return) and not simple(st.value) and not isinstance(st.value, (_ast.Await,)) and tmp not in used:
                            out.append(_ast.copy_location(_ast.Assign(targets=[_ast.Name(id=tmp, ctx=_ast.Store())], value=st.value), st))
                            st.value = _ast.Name(id=tmp, ctx=_ast.Load())
                            k[0] += 1
                        elif kind == 'yld' and isinstance(st, _ast.Expr) and isinstance(st.value, _ast.Yield) and not simple(st.value.value) and tmp not in used:
                            out.append(_ast.copy_location(_ast.Assign(targets=[_ast.Name(id=tmp, ctx=_ast.Store())], value=st.value.value), st))
                            st.value.value = _ast.Name(id=tmp, ctx=_ast.Load())
                            k[0] += 1
                        out.append(st)
                    blk[:] = out
        return (_ast.unparse(_ast.fix_missing_locations(tree)) + '\n') if k[0] else src

    return f


for _i, _m in enumerate(_MODS + [FU]):
    for _k in ('put', 'ret', 'yld'):
        VARIANTS.append(V(f'G-t{_k}-{_i:02d}', 'E', ALL, _m, None, r'\A.*\Z', _bind_temps(_k), flags=re.S, note=f'value bound to a temporary before every {_k}'))


# ---------------------------------------------------------------------- numeric literals of keyword arguments and comparisons moved into module-level constants
def _extract_constants(m):
    import ast as _ast

    src = m.group(0)
    tree = _ast.parse(src)
    consts = []

    def cname(v):
        for nm, val in consts:
            if val == v and type(val) is type(v):
                return nm
        nm = f'_CONST_{len(consts)}'
        consts.append((nm, v))
        return nm

    def numeric(e):
        return isinstance(e, _ast.Constant) and isinstance(e.value, (int, float)) and not isinstance(e.value, bool)

    for fn in [x for x in _ast.walk(tree) if isinstance(x, (_ast.FunctionDef, _ast.AsyncFunctionDef))]:
        for n in _ast.walk(fn):
            if isinstance(n, _ast.Call):
                for kw in n.keywords:
                    if kw.arg and numeric(kw.value):
                        kw.value = _ast.Name(id=cname(kw.value.value), ctx=_ast.Load())
            elif isinstance(n, _ast.Compare) and len(n.ops) == 1 and numeric(n.comparators[0]) and n.comparators[0].value not in (0, 1):
                n.comparators[0] = _ast.Name(id=cname(n.comparators[0].value), ctx=_ast.Load())
    if not consts:
        return src
    at = max((i for i, st in enumerate(tree.body) if isinstance(st, (_ast.Import, _ast.ImportFrom))), default=0) + 1
    for nm, v in reversed(consts):
        tree.body.insert(at, _ast.Assign(targets=[_ast.Name(id=nm, ctx=_ast.Store())], value=_ast.Constant(v)))
    return _ast.unparse(_ast.fix_missing_locations(tree)) + '\n'


for _i, _m in enumerate(_MODS + [FU]):
    VARIANTS.append(V(f'G-cst-{_i:02d}', 'E', ALL, _m, None, r'\A.*\Z', _extract_constants, flags=re.S, note='numeric literals of keyword arguments / comparisons moved into module-level constants'))

VARIANTS += [
    V('C06-E31', 'E', ALL, SV, 'Server._enqueue', r'\A.*\Z', lambda m: m.group(0).replace("            while len(pipeline) >= self._capacity:\n", "            backlog_now = len(pipeline)\n            while backlog_now >= self._capacity:\n").replace("                    raise ServerBacklogFull(len(pipeline), perf_counter() - t0)\n\n            pipeline[uid] = fut", "                    raise ServerBacklogFull(len(pipeline), perf_counter() - t0)\n                backlog_now = len(pipeline)\n\n            pipeline[uid] = fut"), note='ledger size copied to a local under the lock and read again after every wait'),
    V('C06-M31', 'M', ('C06',), SV, 'Server._enqueue', r'\A.*\Z', lambda m: m.group(0).replace("        with self._pipeline_notfull:\n            while len(pipeline) >= self._capacity:\n", "        backlog_now = len(pipeline)\n        with self._pipeline_notfull:\n            while backlog_now >= self._capacity:\n").replace("                    raise ServerBacklogFull(len(pipeline), perf_counter() - t0)\n\n            pipeline[uid] = fut", "                    raise ServerBacklogFull(len(pipeline), perf_counter() - t0)\n                backlog_now = len(pipeline)\n\n            pipeline[uid] = fut"), ('C06-2',), note='seeded C06-f5m1 shape: first read outside the lock'),
    V('C06-M32', 'M', ('C06',), SV, 'Server._enqueue', r'\A.*\Z', lambda m: m.group(0).replace("            while len(pipeline) >= self._capacity:\n", "            backlog_now = len(pipeline)\n            while backlog_now >= self._capacity:\n"), ('C06-2', 'C06-1'), note='copy never refreshed after the wait'),
    V('C04-M30', 'M', ('C04',), WK, 'Worker._start_single', r"(\n(\s+))if isinstance\(y, Exception\):\n(.*?)\n\s+else:\n\s+if batched:\n\s+y = y\[0\]\n", r"\1if batched:\1    y = y[0]\1if isinstance(y, Exception):\n\3\n", ('C04-10',), note='seeded C04-f5m1 shape'),
    V('C07-M30', 'M', ('C07',), SV, 'Server._wait_for_result', r"(\n(\s+))fut\.cancel\(\)\n", r"\1if not fut.cancel():\1    return fut.result()\n", ('C07-3',), note='seeded C07-f5m2 shape'),
    V('C03-M37', 'M', ('C03',), ST, 'Tailer.__init__', r"(\n(\s+))self\._instream = instream\n", r"\1if isinstance(instream, (list, tuple)):\1    instream = instream[-n:]\1self._instream = instream\n", ('C03-1',), note='seeded C03-f5m2 shape'),
]

VARIANTS += [
    V('C04-M31', 'M', ('C04', 'C02'), SV, '_enter_server', r"try:\n\s+qout\.put\(x\)\n\s+except Exception as e:\n(?:\s+#[^\n]*\n)*\s+self\._q_out\.put\(\(x\[0\], RemoteException\(e\)\)\)\n\s+continue\n", "qout.put(x)\n", ('C04-11', 'C02-8'), note='D26 shape: the onboarding thread dies on an input that cannot be pickled'),
    V('C04-M32', 'M', ('C04',), SV, '_enter_server', r"self\._q_out\.put\(\(x\[0\], RemoteException\(e\)\)\)\n(\s+)continue\n", r"logger.error('%r', e)\n\1continue\n", ('C04-11',), note='the failure is logged but the request is not answered'),
]

VARIANTS += [
    V('C14-M32', 'M', ('C14',), SP, 'Server._wrap_user_exc', r"return RemoteException\(exc\)", "return RemoteException(exc, get_remote_traceback(exc)) if is_remote_exception(exc) else RemoteException(exc)", ('C14-13',), note='seeded C14-f5m1 shape'),
    V('C13-M31', 'M', ('C13', 'C14'), SP, 'BaseProxy._incref', r"(\n        server = self\._server\n)(        if server:\n            server\.incref\(None, self\._token\.id\)\n        else:\n            self\._dispatch\('incref'\)\n)(.*?exitpriority=10,\n        \)\n)", r"\1\3\2", ('C13-1', 'C14-12'), note='seeded C13-f5m2 shape: finaliser before the increment'),
]

VARIANTS += [
    V('C12-M35', 'M', ('C12',), CX, 'SpawnProcess.join', r"if self\._future_\.exception\(\) is not None:", "if self._future_.exception():", ('C12-4',), note='D27 shape: outcome tested by truthiness'),
    V('C12-M36', 'M', ('C12',), TH, 'Thread.join', r"if self\._future_\.exception\(\) is not None:\n(\s+)raise self\._future_\.exception\(\)", r"exc = self._future_.exception()\n        if exc:\n\1raise exc", ('C12-4',), note='D27 shape through a local'),
]

VARIANTS += [
    V('C11-M31', 'M', ('C11',), SL, 'SequentialServlet.start', r"for ss in self\._servlets\[:i\]:", "for ss in self._servlets[i - 1 :: -1]:", ('C11-1',), note='seeded C11-f5m1 shape'),
    V('C11-E31', 'E', ALL, SL, 'SequentialServlet.start', r"for ss in self\._servlets\[:i\]:", "for ss in reversed(self._servlets[:i]):", note='rollback in reverse order over the same prefix'),
    V('C11-M32', 'M', ('C11', 'C05', 'C07', 'C03'), ST, 'fifo_stream', r"tasks = SingleLane\(capacity \+ 1\)", "tasks = SingleLane(capacity)", ('C11-10', 'C05-4', 'C07-5', 'C03-9'), note='seeded C11-f5m2 shape'),
]

VARIANTS += [
    V('C20-M36', 'M', ('C20',), CX, 'SpawnProcess.start', r"args=\(self\._logger_thread_, self\._child_ended_\),\n", "args=(self._logger_thread_, self._child_ended_),\n            exitpriority=10,\n", ('C20-1',), note='seeded C20-f5m2 shape'),
]

VARIANTS += [
    V('C10-M31', 'M', ('C10',), TE, 'Fork.__next__', r"(\n(\s+))self\.next = box\.next\n", r"\1self.next = box.next\1if box.n == self.n_forks:\1    box.next = None\n", ('C10-9',), note='seeded C10-f5m1 shape'),
    V('C15-M32', 'M', ('C15', 'C12', 'C14', 'C04'), RX, 'RemoteException.__init__', r"traceback\.format_exception\(type\(exc\), exc, tb\)", r"traceback.format_exception(type(exc), exc, tb, limit=100)", ('C15-3', 'C12-9', 'C14-8'), count=1, note='seeded C15-f5m1 shape'),
    V('C18-M32', 'M', ('C18',), SO, 'SocketServer._handle_connection', r"reqs = asyncio\.Queue\(self\._backlog\)", "reqs = self._reqs", ('C18-14',), note='seeded C18-f5m1 shape'),
]

VARIANTS += [
    V('C17-M31', 'M', ('C17',), QM, 'ResponsiveQueue._get_put', r"time_available = time_total - \(perf_counter\(\) - t0\)", "time_available -= perf_counter() - t0", ('C17-3',), note='seeded C17-f5m2 shape'),
    V('C17-E31', 'E', ALL, QM, 'ResponsiveQueue._get_put', r"(\n(\s+))time_available = time_total - \(perf_counter\(\) - t0\)", r"\1now = perf_counter()\1time_available -= now - t0\1t0 = now", note='running decrement with the start reset in every pass'),
    V('C17-M32', 'M', ('C17',), QM, 'IterableQueue.put_end', r"z = self\._spare_lids\.get\(timeout=1\.0\)", "z = self._spare_lids.get()", ('C17-8',), note='seeded C17-f5m1 shape: unbounded wait for the next round'),
    V('C17-M33', 'M', ('C17',), QM, 'IterableQueue.put_end', r"(\n\s+)if self\._to_stop is not None and self\._to_stop\.is_set\(\):\n\s+raise StopRequested", r"\1pass", ('C17-8',), note='retry without looking at the stop event'),
]

VARIANTS += [
    V('C03-M38', 'M', ('C03',), ST, None, r"NOTSET = object\(\)\n(.*?)initializer: Any = NOTSET(.*?)if z is NOTSET:", r"\1initializer: Any = None\2if z is None:", ('C03-11',), note='seeded C03-f6m2 shape'),
    V('C03-M39', 'M', ('C03', 'C08'), ST, 'Buffer._start', r"SingleLane\(self\.maxsize\)", "SingleLane(self.maxsize - 1)", ('C03-9', 'C08-1'), note='seeded C03-f6m1 shape'),
    V('C17-M34', 'M', ('C17',), QM, 'IterableQueue.renew', r"(\n        )z = self\._q\.get\(\)  # take out the extra `None`\n", r"\1with self._lids_lock:\1    z = self._q.get()\n", ('C17-9',), note='seeded C17-f6m1 shape'),
    V('C15-M33', 'M', ('C15',), RX, 'RemoteException.__init__', r"traceback\.format_exception\(type\(exc\), exc, tb\)", "traceback.format_exception(exc)", ('C15-3',), note='seeded C15-f6m1 shape'),
]

VARIANTS += [
    V('C04-E31', 'E', ALL, SV, 'Server._gather_output', r"(\n(\s+))if isinstance\(y, RemoteException\):\n\s+y = y\.exc\n(\s+)if not fut\.cancelled\(\):\n(\s+)try:\n(\s+)if isinstance\(y, BaseException\):\n", r"\1if not fut.cancelled():\n\4try:\n\5if isinstance(y, RemoteException):\n\5    fut.set_exception(y.exc)\n\5elif isinstance(y, BaseException):\n", note='unwrap at the point of delivery'),
    V('C04-M33', 'M', ('C04', 'C06', 'C07'), SV, 'Server._gather_output', r"(\n(\s+))if isinstance\(y, BaseException\):\n(\s+)fut\.set_exception\(y\)\n", r"\1if isinstance(y, BaseException):\n\3fut.set_exception(y)\n\3continue\n", ('C04-12', 'C06-4', 'C07-4'), note='seeded C04-f6m1 shape: a failed request skips the slot signal'),
    V('C04-M34', 'M', ('C04', 'C15'), RX, 'RemoteException.__init__', r"traceback\.format_exception\(type\(exc\), exc, exc\.__traceback__\)", "traceback.format_exception(type(exc), exc, exc.__traceback__, chain=False)", ('C04-13', 'C15-3'), note='seeded C04-f6m2 shape'),
]

VARIANTS += [
    V('C11-M33', 'M', ('C11', 'C04', 'C09', 'C02'), WK, 'Worker._build_input_batches', r"if isinstance\(x, Exception\):\n(\s+)q_out\.put\(\(uid, RemoteException\(x\)\)\)\n(\s+)elif isinstance\(x, RemoteException\):\n\s+q_out\.put\(\(uid, x\)\)", r"if isinstance(x, (Exception, RemoteException)):\n\1q_out.put((uid, RemoteException(x)))", ('C11-11', 'C04-2', 'C09-10', 'C02-8'), note='seeded C11-f6m2 shape'),
    V('C11-M34', 'M', ('C11', 'C04', 'C02'), SV, '_enter_server', r"except Exception as e:\n(\s+# The input can not be pickled)", r"except (TypeError, AttributeError) as e:\n\1", ('C11-11', 'C04-11', 'C02-8'), note='seeded C11-f6m1 shape'),
    V('C14-M33', 'M', ('C14',), SP, 'Server._callmethod', r"(msg = \('#ERROR', self\._wrap_user_exc\(e\)\)\n)\s+return msg\n", r"\1", ('C14-14',), note='seeded C14-f6m1 shape'),
    V('C13-M32', 'M', ('C13', 'C14'), SP, 'Server.decref', r"(\n(\s+))super\(\)\.decref\(c, ident\)\n", r"\1obj = self.id_to_obj[ident][0]\1super().decref(c, ident)\1if ident not in self.id_to_refcount:\1    obj.release()\n", ('C13-5',), note='seeded C13-f6m2 shape'),
]

VARIANTS += [
    V('C10-M32', 'M', ('C10',), TE, 'Fork.__next__', r"(\n(\s+))if not self\.instream_lock\.acquire\(timeout=0\.1\):\n\s+continue\n(\s+)try:\n", r"\1try:\n\2    if not self.instream_lock.acquire(timeout=0.1):\n\2        continue\n", ('C10-1',), note='seeded C10-f6m2 shape: the failed acquire is released'),
    V('C10-M33', 'M', ('C10',), TE, 'Fork.__next__', r"(\n(\s+))if self\.head\.value is None:\n(\s+)while self\.head\.value is None:", r"\1if getattr(self.head, 'exhausted', False):\1    raise StopIteration\1if self.head.value is None:\n\3while self.head.value is None:", ('C10-10',), note='seeded C10-f6m1 shape'),
]
