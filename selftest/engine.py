"""Self-test of the checkers: mutants that must be reported, equivalent rewrites that must stay silent.

A variant = an edit of one function of a scratch copy of /repo/src/mpservice (outside /repo and
/verif, removed afterwards).  The edit is located by (module, function qualname) and a regular
expression applied to that function's source segment only, so it follows the tree when lines move.
A variant whose anchor/pattern is not found on the current tree is *skipped and listed*.

The rules are run in-process on the scratch tree (no subprocess, nothing from the repo is executed).
"""

from __future__ import annotations

import ast
import importlib
import os
import re
import shutil
import sys
import tempfile
from dataclasses import dataclass, field
from pathlib import Path

HERE = Path(__file__).resolve().parent.parent
sys.path.insert(0, str(HERE))

from mpsa.loader import PKG_REL, AnchorError, Repo  # noqa: E402
from mpsa.report import AnalysisError, Checker  # noqa: E402


@dataclass
class Variant:
    vid: str
    kind: str  # 'M' mutant (must fire) | 'E' equivalent (must stay silent)
    props: tuple  # properties whose check must fire (M) / all listed must stay silent (E)
    module: str  # path relative to src/mpservice
    func: str | None  # qualname whose source segment is edited (None = whole file)
    pattern: str
    repl: str
    rules: tuple = ()  # for M: at least one failed obligation must belong to one of these rules (prefix match)
    count: int = 1  # number of substitutions (0 = all)
    flags: int = re.S
    note: str = ''


def segment(src: str, tree: ast.AST, qual: str):
    """(start, end) character offsets of the function/class `qual` in src."""
    parts = qual.split('.')
    body = tree.body
    node = None
    for p in parts:
        found = None
        stack = list(body)
        while stack:
            st = stack.pop(0)
            if isinstance(st, (ast.FunctionDef, ast.AsyncFunctionDef, ast.ClassDef)) and st.name == p:
                found = st
                break
            if isinstance(st, (ast.If, ast.Try, ast.With, ast.For, ast.While)):
                for fld in ('body', 'orelse', 'finalbody'):
                    stack.extend(getattr(st, fld, []) or [])
                for h in getattr(st, 'handlers', []) or []:
                    stack.extend(h.body)
        if found is None:
            return None
        node = found
        body = found.body
    lines = src.splitlines(keepends=True)
    start = sum(len(l) for l in lines[: node.lineno - 1])
    end = sum(len(l) for l in lines[: node.end_lineno])
    return start, end


def apply_variant(v: Variant, root: Path):
    """Edit the scratch tree in place. Returns None on success, or a reason string when not applicable."""
    if v.module == '*':
        # a package-wide edit: `repl` is a callable over the scratch root, returns None or the reason it does not apply
        return v.repl(root)
    path = root / PKG_REL / v.module
    if not path.exists():
        return f'module {v.module} not found'
    src = path.read_text()
    tree = ast.parse(src)
    if v.func:
        seg = segment(src, tree, v.func)
        if seg is None:
            return f'function {v.func} not found'
        a, b = seg
    else:
        a, b = 0, len(src)
    part = src[a:b]
    n = len(re.findall(v.pattern, part, flags=v.flags))
    if n == 0:
        return 'pattern not found'
    new_part = re.sub(v.pattern, v.repl, part, count=v.count, flags=v.flags)
    if new_part == part:
        return 'substitution changed nothing'
    new = src[:a] + new_part + src[b:]
    try:
        ast.parse(new)
    except SyntaxError as e:
        return f'variant does not parse: {e}'
    path.write_text(new)
    return None


def run_props(root: Path, props):
    """Run the rule modules of `props` on the tree at root. Returns {prop: (failed obligations, error)}"""
    out = {}
    os.environ['MPSA_REPO'] = str(root)
    try:
        repo = Repo(root)
    except Exception as e:  # noqa: BLE001
        return {p: ([], f'{type(e).__name__}: {e}') for p in props}
    for p in props:
        mod = importlib.import_module(f'rules.{p.lower()}')
        ck = Checker(p, repo, 'quick')
        try:
            mod.run(ck)
            ck.check_minimums()
            out[p] = ([o for o in ck.obs if not o.ok], None)
        except (AnchorError, AnalysisError) as e:
            out[p] = ([o for o in ck.obs if not o.ok], f'{type(e).__name__}: {e}')
        except Exception as e:  # noqa: BLE001
            out[p] = ([o for o in ck.obs if not o.ok], f'internal {type(e).__name__}: {e}')
    return out


def known_keys():
    from mpsa.report import load_known

    known, _ = load_known()
    return {(k['property'], k['rule'], k['key']) for k in known}


def evaluate(v: Variant, src_root: Path, only=None):
    """Returns dict(vid, kind, verdict in ok|FAILED|skipped, detail).  `only`: evaluate on this property alone."""
    if only is not None:
        from dataclasses import replace

        v = replace(v, props=(only,), rules=tuple(r for r in v.rules if r.startswith(only)) if v.kind == 'M' else v.rules)
    scratch = Path(tempfile.mkdtemp(prefix='mpsa-selftest-'))
    try:
        (scratch / 'src').mkdir()
        shutil.copytree(src_root / PKG_REL, scratch / PKG_REL)
        why = apply_variant(v, scratch)
        if why:
            return {'vid': v.vid, 'kind': v.kind, 'verdict': 'skipped', 'detail': why}
        res = run_props(scratch, v.props)
        kk = known_keys()
        fired = {}
        errors = {}
        for p, (failed, err) in res.items():
            new = [o for o in failed if (p, o.rule, f'{o.func}|{o.construct}') not in kk]
            fired[p] = new
            if err:
                errors[p] = err
        if v.kind == 'M':
            hit = [o for p in v.props for o in fired[p] if not v.rules or any(o.rule.startswith(r) for r in v.rules)]
            anyhit = [o for p in v.props for o in fired[p]]
            if hit:
                return {'vid': v.vid, 'kind': 'M', 'verdict': 'ok', 'detail': f'reported by {sorted({o.rule for o in hit})}: {hit[0].where} {hit[0].detail[:100]}'}
            if anyhit:
                return {'vid': v.vid, 'kind': 'M', 'verdict': 'FAILED', 'detail': f'reported only by {sorted({o.rule for o in anyhit})}, expected one of {v.rules}'}
            if errors:
                return {'vid': v.vid, 'kind': 'M', 'verdict': 'FAILED', 'detail': f'not reported; checker blind: {errors}'}
            return {'vid': v.vid, 'kind': 'M', 'verdict': 'FAILED', 'detail': 'mutant not reported'}
        else:
            bad = [o for p in v.props for o in fired[p]]
            if bad or errors:
                d = f'{bad[0].rule} {bad[0].where}: {bad[0].detail[:140]}' if bad else str(errors)
                return {'vid': v.vid, 'kind': 'E', 'verdict': 'FAILED', 'detail': f'equivalent rewrite reported: {d}'}
            return {'vid': v.vid, 'kind': 'E', 'verdict': 'ok', 'detail': f'silent on {list(v.props)}'}
    finally:
        shutil.rmtree(scratch, ignore_errors=True)


def _eval(args):
    vid, root, only = args
    from selftest.catalogue import VARIANTS

    v = next(x for x in VARIANTS if x.vid == vid)
    try:
        return evaluate(v, Path(root), only)
    except Exception as e:  # noqa: BLE001
        import traceback

        return {'vid': v.vid, 'kind': v.kind, 'verdict': 'FAILED', 'detail': f'selftest crashed: {type(e).__name__}: {e} {traceback.format_exc()[-300:]}'}


def run_variants(variants, src_root=None, jobs=16, only=None):
    from concurrent.futures import ProcessPoolExecutor

    src_root = str(src_root or os.environ.get('MPSA_REPO') or '/repo')
    if len(variants) <= 1 or jobs <= 1:
        return [_eval((v.vid, src_root, only)) for v in variants]
    # safety net: a variant that does not come back (a regular expression that backtracks for ever on an edited tree) must
    # not hang the check -- after the budget the workers are killed and the run is reported as broken, not as a pass
    import concurrent.futures as _cf

    budget = int(os.environ.get('MPSA_SELFTEST_BUDGET_S') or 2400)
    ex = ProcessPoolExecutor(max_workers=min(jobs, len(variants)))
    try:
        return list(ex.map(_eval, [(v.vid, src_root, only) for v in variants], timeout=budget))
    except _cf.TimeoutError:
        for p_ in list(getattr(ex, '_processes', {}).values()):
            try:
                p_.kill()
            except Exception:  # noqa: BLE001
                pass
        raise AnalysisError(f'self-test did not finish within {budget} s: a variant hangs (run the variants one per process to find it)') from None
    finally:
        ex.shutdown(wait=False, cancel_futures=True)


def consulted_modules(prop: str) -> set:
    """modules in which the rules of `prop` look anything up on the current tree"""
    from mpsa import loader

    saved = loader.LOOKUP_LOG
    loader.LOOKUP_LOG = set()
    loader.CLASS_LOOKUP_LOG = set()
    try:
        repo = Repo(Path(os.environ.get('MPSA_REPO') or '/repo'))
        ck = Checker(prop, repo, 'quick')
        try:
            importlib.import_module(f'rules.{prop.lower()}').run(ck)
        except Exception:  # noqa: BLE001
            return set()
        mods = {rel for rel, _ in loader.LOOKUP_LOG} | set(loader.CLASS_LOOKUP_LOG)
        mods |= {k.split('::')[0] for k in getattr(ck, 'analysed', {})}
        return mods
    finally:
        loader.LOOKUP_LOG = saved
        loader.CLASS_LOOKUP_LOG = None


def thorough_for(prop: str, seed: int = 0):
    """Self-test restricted to one property: its mutants must be reported by THIS property's check, every
    equivalent rewrite that lists it must leave THIS check silent.  Returns (summary dict, failures)."""
    import random

    from selftest.catalogue import VARIANTS

    vs = [v for v in VARIANTS if prop in v.props and (v.kind == 'E' or any(r.startswith(prop) for r in v.rules) or not v.rules)]
    # whole-module rewrites of a module that no rule of this property consults cannot change its verdict: left out here
    # (the full self-test, selftest/run.py, runs every variant against all 20 checks)
    consulted = consulted_modules(prop)
    n_all = len(vs)
    if consulted:
        vs = [v for v in vs if not (v.kind == 'E' and v.func is None and v.module != '*' and f'{PKG_REL}/{v.module}' not in consulted)]
    left_out = n_all - len(vs)
    random.Random(seed).shuffle(vs)
    res = run_variants(vs, only=prop)
    failed = [r for r in res if r['verdict'] == 'FAILED']
    summary = {
        'selftest_variants': len(res),
        'selftest_left_out_other_modules': left_out,
        'selftest_modules_consulted': sorted(consulted),
        'selftest_mutants_reported': sum(1 for r in res if r['kind'] == 'M' and r['verdict'] == 'ok'),
        'selftest_equivalents_silent': sum(1 for r in res if r['kind'] == 'E' and r['verdict'] == 'ok'),
        'selftest_skipped': [f"{r['vid']}: {r['detail']}" for r in res if r['verdict'] == 'skipped'],
        'selftest_failed': [f"{r['vid']}: {r['detail']}" for r in failed],
        'selftest_samples': [f"{r['vid']} ({r['kind']}): {r['detail'][:160]}" for r in res[:12]],
    }
    return summary, failed


def seeds_for(prop: str, src_root=None):
    """Thorough tier: every kept seeded change of this property (seeded/<prop>-*/patch.diff, written by independent
    sub-agents) is applied to a scratch copy of the current tree and must be reported by this property's check.
    Returns (summary dict, failures).  A patch that does not apply to the current tree is skipped and listed."""
    import glob
    import subprocess

    src_root = Path(src_root or os.environ.get('MPSA_REPO') or '/repo')
    kk = known_keys()
    reported, skipped, failed = [], [], []
    for d in sorted(glob.glob(str(HERE / 'seeded' / f'{prop}-*'))):
        patch = Path(d) / 'patch.diff'
        if not patch.exists():
            continue
        scratch = Path(tempfile.mkdtemp(prefix='mpsa-seed-'))
        try:
            (scratch / 'src').mkdir()
            shutil.copytree(src_root / PKG_REL, scratch / PKG_REL)
            subprocess.run(['git', 'init', '-q', '.'], cwd=scratch, capture_output=True)
            r = subprocess.run(['git', 'apply', '--unsafe-paths', '-p1', str(patch)], cwd=scratch, capture_output=True)
            if r.returncode != 0:
                skipped.append(f'{Path(d).name}: patch does not apply to this tree')
                continue
            res = run_props(scratch, (prop,))
            bad, err = res[prop]
            new = [o for o in bad if (prop, o.rule, f'{o.func}|{o.construct}') not in kk]
            if new:
                reported.append(f'{Path(d).name}: {sorted({o.rule for o in new})}')
            else:
                failed.append({'vid': Path(d).name, 'detail': f'seeded change not reported ({err or "no failed obligation"})'})
        finally:
            shutil.rmtree(scratch, ignore_errors=True)
    os.environ.pop('MPSA_REPO', None) if not os.environ.get('MPSA_REPO_KEEP') else None
    return {'seeded_changes_reported': reported, 'seeded_changes_skipped': skipped, 'seeded_changes_missed': [f['vid'] for f in failed]}, failed
