"""Whole-module behaviour-preserving AST rewrites used by the equivalent families of the self-test (catalogue.py).
Each transformer counts the sites it changed in `count[0]`; `apply(name)` gives the callable the catalogue needs."""

import ast
import copy

count = [0]

class NegCompare(ast.NodeTransformer):
    M = {ast.IsNot: ast.Is, ast.NotEq: ast.Eq, ast.NotIn: ast.In}
    def visit_Compare(self, n):
        self.generic_visit(n)
        if len(n.ops) == 1 and type(n.ops[0]) in self.M:
            count[0] += 1
            return ast.UnaryOp(op=ast.Not(), operand=ast.Compare(left=n.left, ops=[self.M[type(n.ops[0])]()], comparators=n.comparators))
        return n

class SplitIsinstance(ast.NodeTransformer):
    def visit_Call(self, n):
        self.generic_visit(n)
        if isinstance(n.func, ast.Name) and n.func.id == 'isinstance' and len(n.args) == 2 and isinstance(n.args[1], ast.Tuple) and len(n.args[1].elts) >= 2 and isinstance(n.args[0], ast.Name):
            count[0] += 1
            return ast.BoolOp(op=ast.Or(), values=[ast.Call(func=ast.Name(id='isinstance', ctx=ast.Load()), args=[copy.deepcopy(n.args[0]), e], keywords=[]) for e in n.args[1].elts])
        return n

class SplitWith(ast.NodeTransformer):
    def visit_With(self, n):
        self.generic_visit(n)
        if len(n.items) >= 2:
            count[0] += 1
            inner = n.body
            for it in reversed(n.items[1:]):
                inner = [ast.With(items=[it], body=inner)]
            return ast.With(items=[n.items[0]], body=inner)
        return n

class MergeWith(ast.NodeTransformer):
    def visit_With(self, n):
        self.generic_visit(n)
        if len(n.body) == 1 and isinstance(n.body[0], ast.With):
            count[0] += 1
            return ast.With(items=n.items + n.body[0].items, body=n.body[0].body)
        return n

class TernaryToIf(ast.NodeTransformer):
    """x = a if c else b  ->  if c: x = a  else: x = b   (statement level, simple targets)"""
    def visit_Assign(self, n):
        if isinstance(n.value, ast.IfExp) and len(n.targets) == 1:
            count[0] += 1
            return ast.If(test=n.value.test, body=[ast.Assign(targets=copy.deepcopy(n.targets), value=n.value.body)], orelse=[ast.Assign(targets=copy.deepcopy(n.targets), value=n.value.orelse)])
        return n

class IfToTernary(ast.NodeTransformer):
    def visit_If(self, n):
        self.generic_visit(n)
        if len(n.body) == 1 and len(n.orelse) == 1 and isinstance(n.body[0], ast.Assign) and isinstance(n.orelse[0], ast.Assign) and len(n.body[0].targets) == 1 and ast.dump(n.body[0].targets[0]) == ast.dump(n.orelse[0].targets[0]) and isinstance(n.body[0].targets[0], ast.Name):
            count[0] += 1
            return ast.Assign(targets=n.body[0].targets, value=ast.IfExp(test=n.test, body=n.body[0].value, orelse=n.orelse[0].value))
        return n

class KwTimeout(ast.NodeTransformer):
    """q.get(timeout=t) -> q.get(True, t); x.wait(timeout=t) -> x.wait(t); x.join(timeout=t) -> x.join(t)"""
    def visit_Call(self, n):
        self.generic_visit(n)
        if isinstance(n.func, ast.Attribute) and len(n.keywords) == 1 and n.keywords[0].arg == 'timeout' and not n.args:
            if n.func.attr in ('wait', 'join', 'acquire_never'):
                count[0] += 1
                return ast.Call(func=n.func, args=[n.keywords[0].value], keywords=[])
            if n.func.attr == 'get':
                count[0] += 1
                return ast.Call(func=n.func, args=[ast.Constant(True), n.keywords[0].value], keywords=[])
        return n

class PosTimeout(ast.NodeTransformer):
    """x.wait(t) -> x.wait(timeout=t); x.join(t) -> x.join(timeout=t)"""
    def visit_Call(self, n):
        self.generic_visit(n)
        if isinstance(n.func, ast.Attribute) and n.func.attr in ('wait', 'join') and len(n.args) == 1 and not n.keywords and not isinstance(n.args[0], ast.Starred) and not isinstance(n.args[0], (ast.List, ast.ListComp, ast.GeneratorExp)) and not (isinstance(n.func.value, ast.Constant)) and not (isinstance(n.func.value, ast.Attribute) and n.func.value.attr == 'path'):
            count[0] += 1
            return ast.Call(func=n.func, args=[], keywords=[ast.keyword(arg='timeout', value=n.args[0])])
        return n

class ReorderTop(ast.NodeTransformer):
    pass

def reorder_top(t):
    # module-level private functions moved to the end of the module (after classes), when not used at import time by decorators/defaults
    fns = [s for s in t.body if isinstance(s, (ast.FunctionDef, ast.AsyncFunctionDef)) and not s.decorator_list]
    used_at_import = {x.id for s in t.body if not isinstance(s, (ast.FunctionDef, ast.AsyncFunctionDef, ast.ClassDef)) for x in ast.walk(s) if isinstance(x, ast.Name)}
    used_at_import |= {x.id for s in t.body if isinstance(s, ast.ClassDef) for st in s.body if not isinstance(st, (ast.FunctionDef, ast.AsyncFunctionDef)) for x in ast.walk(st) if isinstance(x, ast.Name)}
    used_at_import |= {x.id for s in ast.walk(t) if isinstance(s, (ast.FunctionDef, ast.AsyncFunctionDef, ast.ClassDef)) for d in (s.decorator_list + (s.args.defaults + s.args.kw_defaults if not isinstance(s, ast.ClassDef) else s.bases)) if d is not None for x in ast.walk(d) if isinstance(x, ast.Name)}
    mv = [f for f in fns if f.name not in used_at_import]
    if mv:
        count[0] += len(mv)
        t.body = [s for s in t.body if s not in mv] + mv
    return t

class EarlyContinue(ast.NodeTransformer):
    """for/while body ending in `if c: <block>` (no else), block not ending the body otherwise -> `if not c: continue; <block>`"""
    def _fix(self, body):
        if body and isinstance(body[-1], ast.If) and not body[-1].orelse and len(body[-1].body) >= 2:
            last = body[-1]
            count[0] += 1
            return body[:-1] + [ast.If(test=ast.UnaryOp(op=ast.Not(), operand=last.test), body=[ast.Continue()], orelse=[])] + last.body
        return body
    def visit_For(self, n):
        self.generic_visit(n); n.body = self._fix(n.body); return n
    def visit_While(self, n):
        self.generic_visit(n); n.body = self._fix(n.body); return n

class RetTern(ast.NodeTransformer):
    def visit_Return(self, n):
        if isinstance(n.value, ast.IfExp):
            count[0] += 1
            return ast.If(test=n.value.test, body=[ast.Return(value=n.value.body)], orelse=[ast.Return(value=n.value.orelse)])
        return n

class RetIf(ast.NodeTransformer):
    def visit_If(self, n):
        self.generic_visit(n)
        if len(n.body) == 1 and len(n.orelse) == 1 and isinstance(n.body[0], ast.Return) and isinstance(n.orelse[0], ast.Return) and n.body[0].value is not None and n.orelse[0].value is not None:
            count[0] += 1
            return ast.Return(value=ast.IfExp(test=n.test, body=n.body[0].value, orelse=n.orelse[0].value))
        return n

class DeMorgan(ast.NodeTransformer):
    def visit_BoolOp(self, n):
        self.generic_visit(n)
        if isinstance(n.op, ast.And) and len(n.values) == 2:
            count[0] += 1
            return ast.UnaryOp(op=ast.Not(), operand=ast.BoolOp(op=ast.Or(), values=[ast.UnaryOp(op=ast.Not(), operand=v) for v in n.values]))
        return n

class WhileCond(ast.NodeTransformer):
    def visit_While(self, n):
        self.generic_visit(n)
        if isinstance(n.test, ast.Constant) and n.test.value is True and not n.orelse and n.body and isinstance(n.body[0], ast.If) and not n.body[0].orelse and len(n.body[0].body) == 1 and isinstance(n.body[0].body[0], ast.Break) and len(n.body) > 1:
            count[0] += 1
            return ast.While(test=ast.UnaryOp(op=ast.Not(), operand=n.body[0].test), body=n.body[1:], orelse=[])
        return n

class SwapEq(ast.NodeTransformer):
    def visit_Compare(self, n):
        self.generic_visit(n)
        if len(n.ops) == 1 and isinstance(n.ops[0], (ast.Eq, ast.NotEq, ast.Is, ast.IsNot)):
            count[0] += 1
            return ast.Compare(left=n.comparators[0], ops=n.ops, comparators=[n.left])
        return n

class SplitIn(ast.NodeTransformer):
    def visit_Compare(self, n):
        self.generic_visit(n)
        if len(n.ops) == 1 and isinstance(n.ops[0], ast.In) and isinstance(n.comparators[0], (ast.Tuple, ast.List, ast.Set)) and 2 <= len(n.comparators[0].elts) <= 3 and isinstance(n.left, ast.Name):
            count[0] += 1
            return ast.BoolOp(op=ast.Or(), values=[ast.Compare(left=copy.deepcopy(n.left), ops=[ast.Eq()], comparators=[e]) for e in n.comparators[0].elts])
        return n

class DictLit(ast.NodeTransformer):
    def visit_Call(self, n):
        self.generic_visit(n)
        if isinstance(n.func, ast.Name) and n.func.id == 'dict' and not n.args and n.keywords and all(k.arg for k in n.keywords):
            count[0] += 1
            return ast.Dict(keys=[ast.Constant(k.arg) for k in n.keywords], values=[k.value for k in n.keywords])
        return n
    def visit_Dict(self, n):
        self.generic_visit(n)
        if n.keys and all(isinstance(k, ast.Constant) and isinstance(k.value, str) and k.value.isidentifier() for k in n.keys):
            import keyword
            if not any(keyword.iskeyword(k.value) for k in n.keys):
                count[0] += 1
                return ast.Call(func=ast.Name(id='dict', ctx=ast.Load()), args=[], keywords=[ast.keyword(arg=k.value, value=v) for k, v in zip(n.keys, n.values)])
        return n

class Unchain(ast.NodeTransformer):
    def visit_Assign(self, n):
        if len(n.targets) >= 2 and isinstance(n.value, (ast.Constant, ast.Name)):
            count[0] += 1
            return [ast.Assign(targets=[t], value=copy.deepcopy(n.value)) for t in n.targets]
        return n

class Untuple(ast.NodeTransformer):
    def visit_Assign(self, n):
        if len(n.targets) == 1 and isinstance(n.targets[0], ast.Tuple) and isinstance(n.value, ast.Tuple) and len(n.targets[0].elts) == len(n.value.elts) and all(isinstance(t, (ast.Name, ast.Attribute)) for t in n.targets[0].elts):
            tn = {ast.dump(t).replace('Store()', 'Load()') for t in n.targets[0].elts}
            if not any(ast.dump(x) in tn for v in n.value.elts for x in ast.walk(v)):
                count[0] += 1
                return [ast.Assign(targets=[t], value=v) for t, v in zip(n.targets[0].elts, n.value.elts)]
        return n


class OrAssign(ast.NodeTransformer):
    """t = a or b  ->  t = a; if not t: t = b   (plain name or self attribute as target)"""
    def visit_Assign(self, n):
        if isinstance(n.value, ast.BoolOp) and isinstance(n.value.op, ast.Or) and len(n.value.values) == 2 and len(n.targets) == 1 and isinstance(n.targets[0], (ast.Name, ast.Attribute)):
            count[0] += 1
            t = n.targets[0]
            ld = copy.deepcopy(t); ld.ctx = ast.Load()
            return [ast.Assign(targets=[t], value=n.value.values[0]), ast.If(test=ast.UnaryOp(op=ast.Not(), operand=ld), body=[ast.Assign(targets=[copy.deepcopy(t)], value=n.value.values[1])], orelse=[])]
        return n


class SplitExcept(ast.NodeTransformer):
    def visit_Try(self, n):
        self.generic_visit(n)
        hs = []
        for h in n.handlers:
            if isinstance(h.type, ast.Tuple) and len(h.type.elts) >= 2:
                count[0] += 1
                for e in h.type.elts:
                    hs.append(ast.ExceptHandler(type=e, name=h.name, body=copy.deepcopy(h.body)))
            else:
                hs.append(h)
        n.handlers = hs
        return n


class RetNone(ast.NodeTransformer):
    def visit_Return(self, n):
        if n.value is None:
            count[0] += 1
            return ast.Return(value=ast.Constant(None))
        if isinstance(n.value, ast.Constant) and n.value.value is None:
            count[0] += 1
            return ast.Return(value=None)
        return n


def _terminal(body):
    return bool(body) and isinstance(body[-1], (ast.Return, ast.Raise, ast.Continue, ast.Break))


class ElseRemove(ast.NodeTransformer):
    """if c: ...; return  else: B   ->   if c: ...; return   B"""
    def _fix(self, body):
        out = []
        for st in body:
            if isinstance(st, ast.If) and st.orelse and _terminal(st.body) and not (len(st.orelse) == 1 and isinstance(st.orelse[0], ast.If)):
                count[0] += 1
                out.append(ast.If(test=st.test, body=st.body, orelse=[]))
                out.extend(st.orelse)
            else:
                out.append(st)
        return out
    def generic_visit(self, n):
        super().generic_visit(n)
        for fld in ('body', 'orelse', 'finalbody'):
            b = getattr(n, fld, None)
            if isinstance(b, list) and b and isinstance(b[0], ast.stmt):
                setattr(n, fld, self._fix(b))
        return n


class ElseAdd(ast.NodeTransformer):
    """if c: ...; return   B...   ->   if c: ...; return  else: B..."""
    def _fix(self, body):
        for i, st in enumerate(body):
            if isinstance(st, ast.If) and not st.orelse and _terminal(st.body) and i + 1 < len(body) and not any(isinstance(x, (ast.FunctionDef, ast.AsyncFunctionDef, ast.ClassDef)) for x in body[i + 1:]):
                count[0] += 1
                return body[:i] + [ast.If(test=st.test, body=st.body, orelse=self._fix(body[i + 1:]))]
        return body
    def generic_visit(self, n):
        super().generic_visit(n)
        for fld in ('body', 'orelse', 'finalbody'):
            b = getattr(n, fld, None)
            if isinstance(b, list) and b and isinstance(b[0], ast.stmt) and not isinstance(n, (ast.Module, ast.ClassDef)):
                setattr(n, fld, self._fix(b))
        return n


class Comp2Loop(ast.NodeTransformer):
    def visit_Assign(self, n):
        if isinstance(n.value, ast.ListComp) and len(n.value.generators) == 1 and not n.value.generators[0].is_async and len(n.targets) == 1 and isinstance(n.targets[0], ast.Name):
            g = n.value.generators[0]
            tname = n.targets[0].id
            if any(isinstance(x, ast.Name) and x.id == tname for x in ast.walk(n.value)):
                return n  # `batch = [v[1] for v in batch]`: needs a temporary
            count[0] += 1
            app = ast.Expr(value=ast.Call(func=ast.Attribute(value=ast.Name(id=tname, ctx=ast.Load()), attr='append', ctx=ast.Load()), args=[n.value.elt], keywords=[]))
            body = [app]
            for c in reversed(g.ifs):
                body = [ast.If(test=c, body=body, orelse=[])]
            return [ast.Assign(targets=[n.targets[0]], value=ast.List(elts=[], ctx=ast.Load())), ast.For(target=g.target, iter=g.iter, body=body, orelse=[])]
        return n

class WhileTrue(ast.NodeTransformer):
    """while c: B  ->  while True: if not c: break; B     (no else clause)"""
    def visit_While(self, n):
        self.generic_visit(n)
        if not (isinstance(n.test, ast.Constant)) and not n.orelse:
            count[0] += 1
            return ast.While(test=ast.Constant(True), body=[ast.If(test=ast.UnaryOp(op=ast.Not(), operand=n.test), body=[ast.Break()], orelse=[])] + n.body, orelse=[])
        return n


class ElsePass(ast.NodeTransformer):
    def visit_If(self, n):
        self.generic_visit(n)
        if not n.orelse:
            count[0] += 1
            n.orelse = [ast.Pass()]
        return n


class TestTemp(ast.NodeTransformer):
    """if f(..): -> _t = f(..); if _t:    (the test is a call; statement lists only)"""
    def _fix(self, body):
        out = []
        for st in body:
            if isinstance(st, ast.If) and isinstance(st.test, ast.Call) and not any(isinstance(x, (ast.Await, ast.NamedExpr)) for x in ast.walk(st.test)):
                count[0] += 1
                nm = f'_t{count[0]}'
                out.append(ast.Assign(targets=[ast.Name(id=nm, ctx=ast.Store())], value=st.test))
                st.test = ast.Name(id=nm, ctx=ast.Load())
            out.append(st)
        return out
    def generic_visit(self, n):
        super().generic_visit(n)
        for fld in ('body', 'orelse', 'finalbody'):
            b = getattr(n, fld, None)
            if isinstance(b, list) and b and isinstance(b[0], ast.stmt) and not (fld == 'orelse' and isinstance(n, ast.If) and len(b) == 1 and isinstance(b[0], ast.If)):
                setattr(n, fld, self._fix(b))
        return n

class With2Acq(ast.NodeTransformer):
    """with L: B  ->  L.acquire(); try: B finally: L.release()   (L a name / attribute whose last part mentions lock, mutex, cond, not_full, not_empty)"""
    def visit_With(self, n):
        self.generic_visit(n)
        if len(n.items) == 1 and n.items[0].optional_vars is None and isinstance(n.items[0].context_expr, (ast.Name, ast.Attribute)):
            e = n.items[0].context_expr
            last = e.id if isinstance(e, ast.Name) else e.attr
            if any(w in last.lower() for w in ('lock', 'mutex', 'cond', 'not_full', 'not_empty', 'notfull')):
                count[0] += 1
                acq = ast.Expr(value=ast.Call(func=ast.Attribute(value=copy.deepcopy(e), attr='acquire', ctx=ast.Load()), args=[], keywords=[]))
                rel = ast.Expr(value=ast.Call(func=ast.Attribute(value=copy.deepcopy(e), attr='release', ctx=ast.Load()), args=[], keywords=[]))
                return [acq, ast.Try(body=n.body, handlers=[], orelse=[], finalbody=[rel])]
        return n


class Commute(ast.NodeTransformer):
    def visit_BinOp(self, n):
        self.generic_visit(n)
        if isinstance(n.op, (ast.Mult, ast.Add)) and (isinstance(n.left, ast.Constant) != isinstance(n.right, ast.Constant)) and not any(isinstance(x, ast.Constant) and isinstance(x.value, (str, bytes)) for x in (n.left, n.right)) and not any(isinstance(x, (ast.List, ast.Tuple, ast.JoinedStr, ast.Call)) for x in (n.left, n.right)):
            count[0] += 1
            return ast.BinOp(left=n.right, op=n.op, right=n.left)
        return n


class Ret2Tern(ast.NodeTransformer):
    """if c: return a  /  return b   ->   return a if c else b"""
    def _fix(self, body):
        out = []
        i = 0
        while i < len(body):
            st = body[i]
            nx = body[i + 1] if i + 1 < len(body) else None
            if isinstance(st, ast.If) and not st.orelse and len(st.body) == 1 and isinstance(st.body[0], ast.Return) and st.body[0].value is not None and isinstance(nx, ast.Return) and nx.value is not None:
                count[0] += 1
                out.append(ast.Return(value=ast.IfExp(test=st.test, body=st.body[0].value, orelse=nx.value)))
                i += 2
                continue
            out.append(st)
            i += 1
        return out
    def generic_visit(self, n):
        super().generic_visit(n)
        for fld in ('body', 'orelse', 'finalbody'):
            b = getattr(n, fld, None)
            if isinstance(b, list) and b and isinstance(b[0], ast.stmt):
                setattr(n, fld, self._fix(b))
        return n

class NoWait(ast.NodeTransformer):
    """q.get_nowait() -> q.get(block=False); q.put_nowait(x) -> q.put(x, block=False)"""
    def visit_Call(self, n):
        self.generic_visit(n)
        if isinstance(n.func, ast.Attribute) and n.func.attr in ('get_nowait', 'put_nowait') and not n.keywords:
            count[0] += 1
            return ast.Call(func=ast.Attribute(value=n.func.value, attr=n.func.attr[:3], ctx=ast.Load()), args=n.args, keywords=[ast.keyword(arg='block', value=ast.Constant(False))])
        return n


class RaiseCall(ast.NodeTransformer):
    """raise X -> raise X()   (X a plain name or dotted name)"""
    def visit_Raise(self, n):
        if n.exc is not None and isinstance(n.exc, (ast.Name, ast.Attribute)) and n.cause is None:
            nm = n.exc.id if isinstance(n.exc, ast.Name) else n.exc.attr
            if nm[:1].isupper():
                count[0] += 1
                return ast.Raise(exc=ast.Call(func=n.exc, args=[], keywords=[]), cause=None)
        return n


class RaiseBare(ast.NodeTransformer):
    """raise X() -> raise X"""
    def visit_Raise(self, n):
        if isinstance(n.exc, ast.Call) and not n.exc.args and not n.exc.keywords and n.cause is None and isinstance(n.exc.func, (ast.Name, ast.Attribute)) and (n.exc.func.id if isinstance(n.exc.func, ast.Name) else n.exc.func.attr)[:1].isupper():
            count[0] += 1
            return ast.Raise(exc=n.exc.func, cause=None)
        return n


class AWith2Acq(ast.NodeTransformer):
    def visit_AsyncWith(self, n):
        self.generic_visit(n)
        if len(n.items) == 1 and n.items[0].optional_vars is None and isinstance(n.items[0].context_expr, (ast.Name, ast.Attribute)):
            e = n.items[0].context_expr
            count[0] += 1
            acq = ast.Expr(value=ast.Await(value=ast.Call(func=ast.Attribute(value=copy.deepcopy(e), attr='acquire', ctx=ast.Load()), args=[], keywords=[])))
            rel = ast.Expr(value=ast.Call(func=ast.Attribute(value=copy.deepcopy(e), attr='release', ctx=ast.Load()), args=[], keywords=[]))
            return [acq, ast.Try(body=n.body, handlers=[], orelse=[], finalbody=[rel])]
        return n

class Tup2List(ast.NodeTransformer):
    """`x in (a, b)` -> `x in [a, b]`; `for v in (a, b)` -> `for v in [a, b]`"""
    def visit_Compare(self, n):
        self.generic_visit(n)
        if len(n.ops) == 1 and isinstance(n.ops[0], (ast.In, ast.NotIn)) and isinstance(n.comparators[0], ast.Tuple):
            count[0] += 1
            n.comparators[0] = ast.List(elts=n.comparators[0].elts, ctx=ast.Load())
        return n
    def visit_For(self, n):
        self.generic_visit(n)
        if isinstance(n.iter, ast.Tuple):
            count[0] += 1
            n.iter = ast.List(elts=n.iter.elts, ctx=ast.Load())
        return n


class DropAsName(ast.NodeTransformer):
    def visit_ExceptHandler(self, n):
        self.generic_visit(n)
        if n.name and not any(isinstance(x, ast.Name) and x.id == n.name for b in n.body for x in ast.walk(b)):
            count[0] += 1
            n.name = None
        return n


class AddAsName(ast.NodeTransformer):
    def visit_ExceptHandler(self, n):
        self.generic_visit(n)
        if n.name is None and n.type is not None:
            count[0] += 1
            n.name = '_exc'
        return n


class MaxsizePos(ast.NodeTransformer):
    def visit_Call(self, n):
        self.generic_visit(n)
        if len(n.keywords) == 1 and n.keywords[0].arg == 'maxsize' and not n.args:
            count[0] += 1
            return ast.Call(func=n.func, args=[n.keywords[0].value], keywords=[])
        return n


class MaxsizeKw(ast.NodeTransformer):
    def visit_Call(self, n):
        self.generic_visit(n)
        nm = n.func.attr if isinstance(n.func, ast.Attribute) else (n.func.id if isinstance(n.func, ast.Name) else '')
        if nm in ('Queue', 'SimpleQueue', 'LifoQueue') and len(n.args) == 1 and not n.keywords:
            count[0] += 1
            return ast.Call(func=n.func, args=[], keywords=[ast.keyword(arg='maxsize', value=n.args[0])])
        return n


class DaemonAttr(ast.NodeTransformer):
    """t = Thread(..., daemon=True)  ->  t = Thread(...); t.daemon = True   (plain-name targets)"""
    def visit_Assign(self, n):
        if isinstance(n.value, ast.Call) and len(n.targets) == 1 and isinstance(n.targets[0], (ast.Name, ast.Attribute)):
            kws = [k for k in n.value.keywords if k.arg == 'daemon']
            fn = n.value.func
            nm = fn.attr if isinstance(fn, ast.Attribute) else (fn.id if isinstance(fn, ast.Name) else '')
            if kws and nm in ('Thread', 'Process', 'SpawnProcess'):
                count[0] += 1
                n.value.keywords = [k for k in n.value.keywords if k.arg != 'daemon']
                t = copy.deepcopy(n.targets[0]); t.ctx = ast.Load()
                return [n, ast.Assign(targets=[ast.Attribute(value=t, attr='daemon', ctx=ast.Store())], value=kws[0].value)]
        return n

class YieldFromLoop(ast.NodeTransformer):
    """yield from X (statement)  ->  for _v in X: yield _v"""
    def visit_Expr(self, n):
        if isinstance(n.value, ast.YieldFrom):
            count[0] += 1
            return ast.For(target=ast.Name(id='_v', ctx=ast.Store()), iter=n.value.value, body=[ast.Expr(value=ast.Yield(value=ast.Name(id='_v', ctx=ast.Load())))], orelse=[])
        return n


class LoopYieldFrom(ast.NodeTransformer):
    """for v in X: yield v  ->  yield from X   (not in async generators)"""
    def visit_AsyncFunctionDef(self, n):
        return n
    def visit_For(self, n):
        self.generic_visit(n)
        if not n.orelse and len(n.body) == 1 and isinstance(n.body[0], ast.Expr) and isinstance(n.body[0].value, ast.Yield) and isinstance(n.target, ast.Name) and isinstance(n.body[0].value.value, ast.Name) and n.body[0].value.value.id == n.target.id:
            count[0] += 1
            return ast.Expr(value=ast.YieldFrom(value=n.iter))
        return n


class ArgsList(ast.NodeTransformer):
    """Thread(target=f, args=(a, b)) -> args=[a, b]"""
    def visit_Call(self, n):
        self.generic_visit(n)
        for k in n.keywords:
            if k.arg == 'args' and isinstance(k.value, ast.Tuple):
                count[0] += 1
                k.value = ast.List(elts=k.value.elts, ctx=ast.Load())
        return n

class Suppress(ast.NodeTransformer):
    """try: B except E: pass  ->  with contextlib.suppress(E): B      (SIM105; no else / finally, one handler, no name)"""
    def visit_Try(self, n):
        self.generic_visit(n)
        if len(n.handlers) == 1 and not n.orelse and not n.finalbody and n.handlers[0].type is not None and n.handlers[0].name is None and len(n.handlers[0].body) == 1 and isinstance(n.handlers[0].body[0], ast.Pass) and not any(isinstance(x, (ast.Return, ast.Yield, ast.YieldFrom, ast.Await)) for b in n.body for x in ast.walk(b)):
            count[0] += 1
            t = n.handlers[0].type
            args = list(t.elts) if isinstance(t, ast.Tuple) else [t]
            return ast.With(items=[ast.withitem(context_expr=ast.Call(func=ast.Attribute(value=ast.Name(id='contextlib', ctx=ast.Load()), attr='suppress', ctx=ast.Load()), args=args, keywords=[]), optional_vars=None)], body=n.body)
        return n


class EmptyCtor(ast.NodeTransformer):
    def visit_List(self, n):
        if not n.elts and isinstance(n.ctx, ast.Load):
            count[0] += 1
            return ast.Call(func=ast.Name(id='list', ctx=ast.Load()), args=[], keywords=[])
        return self.generic_visit(n)
    def visit_Dict(self, n):
        if not n.keys:
            count[0] += 1
            return ast.Call(func=ast.Name(id='dict', ctx=ast.Load()), args=[], keywords=[])
        return self.generic_visit(n)


class EmptyLit(ast.NodeTransformer):
    def visit_Call(self, n):
        self.generic_visit(n)
        if isinstance(n.func, ast.Name) and not n.args and not n.keywords and n.func.id in ('list', 'dict'):
            count[0] += 1
            return ast.List(elts=[], ctx=ast.Load()) if n.func.id == 'list' else ast.Dict(keys=[], values=[])
        return n

class WaitForKw(ast.NodeTransformer):
    """asyncio.wait_for(x, t) -> asyncio.wait_for(x, timeout=t)"""
    def visit_Call(self, n):
        self.generic_visit(n)
        if isinstance(n.func, ast.Attribute) and n.func.attr == 'wait_for' and len(n.args) == 2 and not n.keywords:
            count[0] += 1
            return ast.Call(func=n.func, args=[n.args[0]], keywords=[ast.keyword(arg='timeout', value=n.args[1])])
        return n


class WaitForPos(ast.NodeTransformer):
    def visit_Call(self, n):
        self.generic_visit(n)
        if isinstance(n.func, ast.Attribute) and n.func.attr == 'wait_for' and len(n.args) == 1 and len(n.keywords) == 1 and n.keywords[0].arg == 'timeout':
            count[0] += 1
            return ast.Call(func=n.func, args=[n.args[0], n.keywords[0].value], keywords=[])
        return n

T = {'negcmp': NegCompare, 'splitisi': SplitIsinstance, 'splitwith': SplitWith, 'mergewith': MergeWith, 'tern2if': TernaryToIf, 'if2tern': IfToTernary, 'kwtimeout': KwTimeout, 'postimeout': PosTimeout, 'earlycont': EarlyContinue, 'rettern': RetTern, 'retif': RetIf, 'demorgan': DeMorgan, 'whilecond': WhileCond, 'swapeq': SwapEq, 'splitin': SplitIn, 'dictlit': DictLit, 'unchain': Unchain, 'untuple': Untuple, 'orassign': OrAssign, 'splitexcept': SplitExcept, 'retnone': RetNone, 'elseremove': ElseRemove, 'elseadd': ElseAdd, 'comp2loop': Comp2Loop, 'whiletrue': WhileTrue, 'elsepass': ElsePass, 'testtemp': TestTemp, 'with2acq': With2Acq, 'commute': Commute, 'ret2tern': Ret2Tern, 'nowait': NoWait, 'raisecall': RaiseCall, 'raisebare': RaiseBare, 'awith2acq': AWith2Acq, 'tup2list': Tup2List, 'dropasname': DropAsName, 'addasname': AddAsName, 'maxsizepos': MaxsizePos, 'maxsizekw': MaxsizeKw, 'daemonattr': DaemonAttr, 'yf2loop': YieldFromLoop, 'loop2yf': LoopYieldFrom, 'argslist': ArgsList, 'suppress': Suppress, 'emptyctor': EmptyCtor, 'emptylit': EmptyLit, 'waitforkw': WaitForKw, 'waitforpos': WaitForPos}


def apply(name):
    def f(m):
        src = m.group(0)
        tree = ast.parse(src)
        c0 = count[0]
        tree = reorder_top(tree) if name == 'reordertop' else T[name]().visit(tree)
        if count[0] == c0:
            return src
        return ast.unparse(ast.fix_missing_locations(tree)) + '\n'

    return f


def unnest(outer, inner):
    """move the closure-free nested function `inner` of the module-level function `outer` to module level"""
    def f(m):
        src = m.group(0)
        t = ast.parse(src)
        for i, st in enumerate(t.body):
            if isinstance(st, (ast.FunctionDef, ast.AsyncFunctionDef)) and st.name == outer:
                for j, s2 in enumerate(st.body):
                    if isinstance(s2, (ast.FunctionDef, ast.AsyncFunctionDef)) and s2.name == inner:
                        params = {a.arg for a in ast.walk(s2) if isinstance(a, ast.arg)}
                        stored = {x.id for x in ast.walk(s2) if isinstance(x, ast.Name) and isinstance(x.ctx, ast.Store)}
                        outer_locals = {x.id for x in ast.walk(st) if isinstance(x, ast.Name) and isinstance(x.ctx, ast.Store)} | {a.arg for a in st.args.args + st.args.kwonlyargs}
                        free = {x.id for x in ast.walk(s2) if isinstance(x, ast.Name) and isinstance(x.ctx, ast.Load)} - params - stored
                        if free & outer_locals:
                            return src
                        new = f'_{outer}_{inner}'
                        s2.name = new
                        del st.body[j]
                        for x in ast.walk(st):
                            if isinstance(x, ast.Name) and x.id == inner:
                                x.id = new
                        t.body.insert(i, s2)
                        return ast.unparse(ast.fix_missing_locations(t)) + '\n'
        return src
    return f
