#!/venv/bin/python
"""Run the self-test catalogue:  selftest/run.py [PROP ...] [--only VID] [--jobs N]"""
import argparse
import os
import sys
import time

HERE = os.path.dirname(os.path.dirname(os.path.abspath(__file__)))
sys.path.insert(0, HERE)
sys.dont_write_bytecode = True

from selftest.catalogue import VARIANTS  # noqa: E402
from selftest.engine import run_variants  # noqa: E402


def main():
    ap = argparse.ArgumentParser()
    ap.add_argument('props', nargs='*')
    ap.add_argument('--only')
    ap.add_argument('--jobs', type=int, default=16)
    a = ap.parse_args()
    vs = VARIANTS
    if a.props:
        vs = [v for v in vs if set(v.props) & set(a.props)]
    if a.only:
        vs = [v for v in VARIANTS if v.vid.startswith(a.only)]
    t0 = time.time()
    res = run_variants(vs, jobs=a.jobs)
    bad = 0
    for r in res:
        if r['verdict'] != 'ok':
            print(f"{r['verdict']:8s} {r['vid']:10s} {r['detail'][:300]}")
            bad += r['verdict'] == 'FAILED'
    n_ok = sum(1 for r in res if r['verdict'] == 'ok')
    n_sk = sum(1 for r in res if r['verdict'] == 'skipped')
    print(f'{len(res)} variants: {n_ok} ok, {n_sk} skipped, {bad} FAILED  ({time.time() - t0:.1f}s)')
    return 1 if bad else 0


if __name__ == '__main__':
    sys.exit(main())
