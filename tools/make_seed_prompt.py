#!/usr/bin/env python3
"""make_seed_prompt.py <ID> <round-tag>  -- write /tmp/seed/<ID>.prompt<tag>.txt: the round-1 prompt of that property plus
the one-line titles of the changes already kept for it (so that the next agent attacks something else) and deliverable
directories out/<tag>m1, out/<tag>m2.  Nothing else from /verif goes into the prompt.  A tag that starts with `f` ("fresh")
omits the list of earlier changes and the hints: an independent sample, as in the first round."""
import glob, json, re, sys
ID, tag = sys.argv[1], sys.argv[2]
base = open(f'/tmp/seed/{ID}.prompt.txt').read() if __import__('os').path.exists(f'/tmp/seed/{ID}.prompt.txt') else open(f'/verif/seeded/_prompts/{ID}.prompt.txt').read()
done = []
for d in sorted(glob.glob(f'/verif/seeded/{ID}-*/meta.json')):
    m = json.load(open(d))
    done.append(f"  - {m.get('title')} (files: {m.get('files_changed')})")
note_old = re.search(r'NOTE\. Line numbers.*?\n', base, re.S).group(0)
note_new = note_old.rstrip('\n') + '\n'
if done and not tag.startswith('f'):
    note_new += ('Other people have ALREADY produced the following changes for this property; yours must be DIFFERENT — attack another clause of the statement, '
                 'another function/site, or another mechanism (look at ALL the anchored files and at code they depend on, including helper modules), not a variation of these:\n' + '\n'.join(done) + '\n')
if tag not in ('r2',) and not tag.startswith('f'):
    note_new += ('Kinds of edit that have proved realistic so far (use them as inspiration, pick sites nobody has touched yet): handling of defaults / optional arguments '
                 '(`x or default` where 0, empty or False are legal), timeouts and deadlines (what they cover, whether they shrink, what happens when they expire), the scope of an exception handler or of an '
                 'isinstance test (narrower or wider by one class), the boundary of a lock / critical section, the order of two clean-up or hand-over steps, sharing instead of copying a mutable object, '
                 'off-by-one in a counter / size / comparison, a standard-library call replaced by a near-equivalent that differs in a corner (non-blocking variant, different default, different exception type), '
                 'a helper that returns early on a new condition, state initialised at the wrong time (constructor vs. start).\n')
note_new += f'Put your deliverables in out/{tag}m1 and out/{tag}m2 (instead of out/m1 and out/m2).\n'
txt = base.replace(note_old, note_new)
txt = txt.replace('("m1" and "m2")', f'("{tag}m1" and "{tag}m2")').replace('out/m1/', f'out/{tag}m1/').replace('out/m2/', f'out/{tag}m2/')
open(f'/tmp/seed/{ID}.prompt{tag}.txt', 'w').write(txt)
print(f'/tmp/seed/{ID}.prompt{tag}.txt', len(done), 'already produced')
