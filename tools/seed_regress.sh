#!/bin/bash
# usage: seed_regress.sh   -- every kept seeded change must be reported by the check of its property (scratch copies only)
cd /verif
fail=0
run_one() {
  d=$1; id=$(basename $d); prop=${id%%-*}
  out=$(tools/try_patch.sh /verif/$d/patch.diff $prop 2>&1)
  if echo "$out" | grep -q "== $prop rc=1"; then echo "reported  $id"; else echo "MISSED    $id :: $(echo "$out" | grep -v WARNING | tr '\n' ' ' | cut -c1-200)"; fi
}
export -f run_one
ls -d seeded/C*/ | sed 's#/$##' | xargs -P 12 -I{} bash -c 'run_one {}' | sort
