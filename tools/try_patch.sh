#!/bin/bash
# usage: try_patch.sh <patch> <prop...>   -- apply a patch to a scratch copy of /repo HEAD and run checks against it

PATCH=$1; shift
D=$(mktemp -d /tmp/mpsa-try-XXXXXX)
mkdir -p $D/src && cp -r /repo/src/mpservice $D/src/
(cd $D && git init -q . >/dev/null 2>&1 && git apply --unsafe-paths -p1 $PATCH) || { echo "PATCH DOES NOT APPLY"; rm -rf $D; exit 3; }
for p in "$@"; do
  out=$(cd /verif && MPSA_EVIDENCE_DIR=$D/ev ./check $p --repo $D 2>&1) ; rc=$?
  echo "== $p rc=$rc"; echo "$out" | grep -E "VIOLATION|ANALYSIS-ERROR|^src/" | head -8
done
rm -rf $D
