#!/bin/bash
# usage: try_sed.sh <file rel to src/mpservice> <python regex old> <new> <prop...>  -- one-off mutant on a scratch copy
F=$1; OLD=$2; NEW=$3; shift 3
D=$(mktemp -d /tmp/mpsa-try-XXXXXX); mkdir -p $D/src && cp -r /repo/src/mpservice $D/src/
/venv/bin/python - "$D/src/mpservice/$F" "$OLD" "$NEW" <<'PY'
import re,sys
p,old,new=sys.argv[1:4]
s=open(p).read()
n=len(re.findall(old,s))
assert n>=1, ('pattern not found',old)
s=re.sub(old,new,s,count=1)
open(p,'w').write(s)
import ast; ast.parse(s)
print('mutated 1 of',n,'occurrence(s)')
PY
[ $? -ne 0 ] && { rm -rf $D; exit 3; }
for p in "$@"; do out=$(cd /verif && MPSA_EVIDENCE_DIR=$D/ev ./check $p --repo $D 2>&1); rc=$?; echo "== $p rc=$rc"; echo "$out" | grep -E "ANALYSIS-ERROR|^src/" | cut -c1-260 | head -5; done
rm -rf $D
