#!/venv/bin/python
"""seed_matrix.py -- run all 20 checks against every kept seeded change; print, per seed, the properties whose check
reports it (own property first).  Used to look for missing cross-listings."""
import glob, json, os, subprocess, sys, tempfile, shutil
from concurrent.futures import ThreadPoolExecutor
seeds = sorted(glob.glob('/verif/seeded/C*/patch.diff'))
def one(pf):
    sd = os.path.basename(os.path.dirname(pf))
    d = tempfile.mkdtemp(prefix='mpsa-mx-')
    try:
        os.makedirs(d + '/src')
        shutil.copytree('/repo/src/mpservice', d + '/src/mpservice')
        subprocess.run(['git', 'init', '-q', '.'], cwd=d, capture_output=True)
        r = subprocess.run(['git', 'apply', '--unsafe-paths', '-p1', pf], cwd=d, capture_output=True)
        if r.returncode:
            return sd, None
        hits = []
        for i in range(1, 21):
            p = f'C{i:02d}'
            env = dict(os.environ, MPSA_EVIDENCE_DIR=d + '/ev')
            rr = subprocess.run(['/verif/check', p, '--repo', d], cwd='/verif', capture_output=True, text=True, env=env)
            if rr.returncode == 1:
                hits.append(p)
            elif rr.returncode == 2:
                hits.append(p + '!')
        return sd, hits
    finally:
        shutil.rmtree(d, ignore_errors=True)
with ThreadPoolExecutor(14) as ex:
    for sd, hits in ex.map(one, seeds):
        own = sd.split('-')[0]
        print(sd, 'OWN' if hits and own in hits else 'own-missing', ' '.join(h for h in (hits or []) if h != own))
