#!/bin/bash
# usage: verify_seed.sh <ID> <mN>   -- confirm a seeded change in its scratch worktree /tmp/seed/<ID>
ID=$1; M=$2; W=/tmp/seed/$ID; O=$W/out/$M
cd $W || exit 9
git checkout -q -- . 
run_demo() { (cd $W && PYTHONPATH=$W/src timeout -s KILL 180 /venv/bin/python $O/demo.py > $O/$1.log 2>&1; echo $? > $O/$1.rc); pkill -9 -f "$O/demo.py" 2>/dev/null; }
run_demo verify_unchanged
git apply $O/patch.diff || { echo "$ID $M PATCH-FAIL"; exit 8; }
run_demo verify_changed
# tests: modules chosen by changed files
files=$(grep '^+++ b/' $O/patch.diff | sed 's#+++ b/##')
mods=""
for f in $files; do
  case $f in
    *streamer/_tee*|*streamer/_streamer.py|*streamer/__init__*) mods="$mods tests/test_streamer.py tests/test_mpserver.py";;
    *streamer/_streamer_async*) mods="$mods tests/test_streamer_async.py";;
    *mpserver/*) mods="$mods tests/test_mpserver.py tests/test_socket.py";;
    *multiprocessing/context*|*multiprocessing/__init__*) mods="$mods tests/test_multiprocessing.py tests/test_multiprocessing_logger.py tests/test_multiprocessing_runner.py tests/test_mpserver.py";;
    *multiprocessing/server_process*) mods="$mods tests/test_multiprocessing_serverprocess.py";;
    *multiprocessing/remote_exception*) mods="$mods tests/test_multiprocessing_remoteexception.py tests/test_multiprocessing.py tests/test_mpserver.py";;
    *threading/*) mods="$mods tests/test_threading.py tests/test_streamer.py";;
    *_queues*) mods="$mods tests/test_streamer.py tests/test_socket.py tests/test_mpserver.py";;
    *queue.py) mods="$mods tests/test_queue.py";;
    *socket.py) mods="$mods tests/test_socket.py";;
    *pipe.py) mods="$mods tests/test_pipe.py";;
    *concurrent/*) mods="$mods tests/test_concurent_futures.py tests/test_streamer.py";;
    *) mods="$mods tests/test_streamer.py";;
  esac
done
mods=$(echo $mods | tr ' ' '\n' | sort -u | tr '\n' ' ')
(cd $W && PYTHONPATH=$W/src timeout -s KILL 1500 /venv/bin/python -m pytest -q -p no:cacheprovider --timeout=300 --deselect tests/test_streamer.py::test_eager_batcher $mods > $O/verify_tests.log 2>&1; echo $? > $O/verify_tests.rc)
git checkout -q -- .
echo "$ID $M demo_unchanged=$(cat $O/verify_unchanged.rc) demo_changed=$(cat $O/verify_changed.rc) tests_rc=$(cat $O/verify_tests.rc) [$mods] $(tail -1 $O/verify_tests.log | cut -c1-80)"
