#!/bin/bash
# retest.sh ID m module...   -- re-run test modules with the patch applied (flaky-test confirmation)
ID=$1; M=$2; shift 2; W=/tmp/seed/$ID; O=$W/out/$M
cd $W && git checkout -q -- . && git apply $O/patch.diff || exit 8
for i in 1 2; do
PYTHONPATH=$W/src timeout -s KILL 900 /venv/bin/python -m pytest -q -p no:cacheprovider --timeout=300 "$@" > $O/retest_$i.log 2>&1; echo "$ID $M retest$i rc=$? $(tail -1 $O/retest_$i.log | cut -c1-80)" >> /tmp/seed/verify.log
done
git checkout -q -- .
