#!/venv/bin/python
"""Print the markdown table of kept seeded changes (for DESIGN.md section 11.5)."""
import glob, json, os
rows = []
for d in sorted(glob.glob('/verif/seeded/C*')):
    m = json.load(open(f'{d}/meta.json'))
    sc = m['static_check']
    rows.append((os.path.basename(d), (m.get('title') or m.get('what_breaks') or '')[:110].replace('|', '/'), sc['initially'], sc['reported_by'].replace('|', '/')))
print('| seeded change | what it does | first run | reported by |')
print('|---|---|---|---|')
for r in rows:
    print('| ' + ' | '.join(r) + ' |')
n = len(rows)
c = sum(1 for r in rows if r[2] == 'caught')
print(f'\n{n} kept; {c} reported on the first run, {n - c} not (each of those led to a new or stronger rule, after which all {n} are reported).')
