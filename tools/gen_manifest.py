#!/venv/bin/python
"""Generate /verif/MANIFEST.json from the table below (and validate it against the schema).

A property is claimed only when rules/<id>.py exists; everything else is listed under
not_applicable with its reason.
"""
import json
import os
import sys

HERE = os.path.dirname(os.path.dirname(os.path.abspath(__file__)))

COMMON_NOTE = (
    'Trusted base: CPython 3.12 semantics of threading/queue/concurrent.futures/asyncio/multiprocessing/pickle; '
    "the engine's own CFG construction and name resolution (guarded by the self-test). "
    'Decides structural necessary conditions only; value-level and timing clauses of the property are declined (DESIGN.md section 4).'
)

# id -> (technique, what the check gives, DESIGN ref)
CLAIMS = {
    'C01': (
        'ast + per-function CFG with exception edges; definite-assignment-since-loop-head (FRESH), reaching definitions (ORIGIN), per-iteration min/max event counts (COUNT), who-may-put/get (WHO)',
        'Decides, on every CFG path of the feeder and consumer of fifo_stream, of SingleLane.put/get and of the two submit wrappers, the structural clauses: the future enqueued with an element is produced from that element in the same iteration; exactly one hand-off per element; consumer unpacks in producer order, yields the outcome of that very future exactly once per dequeue; the hand-off queue is a FIFO with one producer and one consumer. Not verified: the value-level statement (outputs equal f(inputs)) and executor internals.',
        'DESIGN.md 4/C01',
    ),
    'C16': (
        'ast + CFG dataflow (FRESH/ORIGIN/COUNT) on the async feeder/consumer; sibling event-language comparison sync vs async; keyword-mapping agreement of the delegating call sites',
        'Decides that async_fifo_stream has the same pairing/one-hand-off/one-yield structure as fifo_stream (in particular that an element rejected by the preprocessor is enqueued with its own pre-failed future on every path), and that Server.stream/AsyncServer.stream and the parmapper classes delegate with the same flag mapping. Not verified: equality of produced values.',
        'DESIGN.md 4/C16',
    ),
    'C02': (
        'ast + CFG: FRESH closure (cyclic-path staleness) down to queue gets at every (id, payload) put, per-iteration COUNT on the id side queues, dominance (PRECEDE) of ledger/catalog stores over sends, ORIGIN of request ids, AGREE of ensemble member index',
        'Decides the structural clauses: every message put in a service loop of the worker/servlet code carries an id and payload obtained in the same iteration on every path; one id enqueued per input handed to Worker.stream and one dequeued per output (FIFO side queue); the ledger entry is stored before the input is sent; request ids are never minted with builtin id(); the ensemble catalog is stored before member sends, looked up with the message id, filled at the member index, popped exactly once before each emit; gather resolves the future popped with the message id with that message payload. Not verified: that the stages compute the configured composition (value-level).',
        'DESIGN.md 4/C02',
    ),
    'C05': (
        'ast + CFG with exception and generator thrown-in edges: EXITS enumeration of producer and consumer exits under the raise-set {Exception, StopRequested}; AGREE of terminal vocabularies; COUNT + LINEAR counting argument for the finaliser join; PAIR of started helpers',
        'For the five producer/consumer pairs (fifo_stream, async_fifo_stream, Buffer, AsyncBuffer, SyncIter): every producer exit puts a terminal item; the consumer recognises every terminal item the producer can send; every abnormal consumer exit (GeneratorExit thrown in at each yield, failures) sets the stop flag the producer polls each iteration; the producer join cannot wedge on a full queue (liveness-conditioned timed drain, or puts-after-drain <= guaranteed slots); helper threads/tasks/executors are joined or shut down on all exits. Not verified: bounded time in seconds, executor internals.',
        'DESIGN.md 4/C05',
    ),
    'C06': (
        'ast + CFG: MUSTPASS (guard re-evaluated between Condition.wait and ledger insert, with LINEAR normalisation of the guard), HELD lock regions, PRECEDE (no effect before a rejection), per-iteration COUNT of admission signals, WHO (single writer / single deleter of the ledger)',
        'For Server and AsyncServer: the capacity guard len(ledger) >= capacity is re-evaluated after every wake-up and on every path to the insert, inside one region of the admission lock; a rejected request has stored/sent nothing; the gather loop pops the ledger unconditionally per message and signals the admission condition exactly once per popped entry (notify under the lock); only the admission function writes and only the gather loop deletes ledger entries; the wait is bounded by the caller timeout. Not verified: fairness, exact expiry instants, the numeric backlog itself.',
        'DESIGN.md 4/C06',
    ),
    'C07': (
        'ast + CFG with InvalidStateError/KeyError fallibility on the gather loop: EXITS (no such exception can leave the loop), WHO (what _wait_for_result and the stream cleanup may touch)',
        'Direct set_result/set_exception in the gather thread on a future the caller may cancel is protected (InvalidStateError handled inside the loop) or deferred to the event loop - a bare cancelled() check is reported as check-then-act; an unknown id is tolerated; abandonment only cancels the caller\'s own future and never touches ledger, queues or condition; timed-out callers do not delete their ledger entry. Not verified: which of late result / timeout wins.',
        'DESIGN.md 4/C07',
    ),
    'C09': (
        'ast + CFG: GUARD (path-sensitive isinstance/None facts with disjunctive states), COUNT (append vs counter, destinations per request), deadline-shape dataflow, WHO on the batch buffer, HELD for wait discipline',
        'Values handed to the batch buffer and to Worker.stream are proven non-exception/non-RemoteException on every path, items appended to a batch are proven not None; a batch starts with one element and grows by one per counted iteration under a strict < batch_size guard; every dequeued request goes to exactly one of buffer/output; only the first get of a batch is untimed, later gets are bounded by a deadline fixed after the first element from batch_wait_time and queue.Empty releases the batch; the batch buffer is single-producer/single-consumer; predicates governing untimed Condition.wait() are evaluated under the lock. Not verified: wall-clock accuracy, fairness between workers.',
        'DESIGN.md 4/C09',
    ),
    'C10': (
        'ast + CFG of Fork.__next__: may/must lock sets (HELD), EXITS with the source as user code, a wait-for graph over {source lock, window slots} (WAITFOR) including the tail call into the next activation, PRECEDE, MUSTPASS',
        'The source lock is released on every exit including a raising source; no untimed acquisition of the source lock precedes the consume step while a put under the lock can block (no cycle of unbounded waits); the element is linked before the blocking put; every pull is under the lock after an under-lock re-test; counter increment, comparison with n_forks and window pop are one region of the element lock. Not verified: that every fork observes the source exception; element values.',
        'DESIGN.md 4/C10',
    ),
    'C12': (
        'ast + CFG with the target as user code raising any BaseException and Connection.recv raising {EOFError, Exception}: whole-function COUNT of resolutions / sends per path, EXITS, PRECEDE (joins dominate reads of the future), SIBLING agreement of the four wait/as_completed maps',
        'Thread.run resolves its future exactly once on every path and never raises; the child sends exactly one (result, error) pair of an allowed kind on every way the target ends and closes the pipe on every exit; the collector resolves the future exactly once on every exit (result, EOF after a signal, failing recv) and cannot die with it pending; join/result/exception read the future only after the OS-level join, the collector join and a passed finished-test; wait/as_completed index and look up by the same key. Not verified: exit-code values, signal timing.',
        'DESIGN.md 4/C12',
    ),
}

NOT_YET = 'check not built yet in this session (rules planned in DESIGN.md section 4); not claimed until its rules exist'


def main():
    props = [json.loads(l) for l in open(os.path.join(HERE, 'properties.jsonl'))]
    checks, na = [], []
    for p in props:
        pid = p['id']
        have = os.path.exists(os.path.join(HERE, 'rules', f'{pid.lower()}.py'))
        if pid in CLAIMS and have:
            tech, text, ref = CLAIMS[pid]
            checks.append(
                {
                    'property_id': pid,
                    'quick_cmd': f'./check {pid} --tier quick',
                    'thorough_cmd': f'./check {pid} --tier thorough',
                    'evidence_file': f'/verif/evidence/{pid}.json',
                    'replay_cmd_template': f'./check {pid} --replay {{path}}',
                    'engine': 'mpsa',
                    'level_claimed': {'category': 'other', 'text': text, 'design_ref': ref},
                    'level_note': COMMON_NOTE,
                    'technique': 'static analysis: ' + tech,
                }
            )
        else:
            na.append({'property_id': pid, 'reason': NA_REASONS.get(pid, NOT_YET)})
    man = {
        'version': 1,
        'setup_cmd': '/venv/bin/python -m compileall -q mpsa rules selftest check >/dev/null 2>&1; /venv/bin/python -c "import ast,sys; sys.path.insert(0,\'.\'); import mpsa.cfg, mpsa.flow, mpsa.report"',
        'hooks': {
            'guard': 'ZPZ_MPSERVICE_VERIF',
            'enable': 'none needed: the checks are static (ast of /repo/src/mpservice); no instrumentation was added to the repository',
            'baseline_off_cmd': 'cd /repo && /venv/bin/python -m pytest -ra -q -p no:cacheprovider --timeout=900 --continue-on-collection-errors',
            'source_commits': [],
            'add_only': True,
        },
        'engines': [
            {
                'name': 'mpsa',
                'path': '/verif/mpsa',
                'serves_properties': [c['property_id'] for c in checks],
                'kind_free_text': 'repository-specific static analyser: ast loader + symbol tables, statement-level CFG with exception/generator edges, dataflow (definite assignment, reaching defs, lock sets, guard facts), path rules (must-pass-through, dominance, min/max event counts), who-may-call tables; rules/cXX.py encode the per-property rules',
            }
        ],
        'checks': checks,
        'not_applicable': na,
        'notes': 'Static analysis only: nothing from /repo is imported or executed by any check. Exit 2 + ANALYSIS-ERROR means the checker is blind (vanished anchor / too few rule instances), which is neither a pass nor a violation. Known findings: /verif/known_findings.txt.',
    }
    out = os.path.join(HERE, 'MANIFEST.json')
    json.dump(man, open(out, 'w'), indent=1)
    # validate
    try:
        sys.path.insert(0, '/opt/veriftools/pyvenv/lib/python3.11/site-packages')
        import jsonschema

        jsonschema.validate(man, json.load(open('/root/.vp/MANIFEST.schema.json')))
        print('MANIFEST.json valid;', len(checks), 'claimed,', len(na), 'not applicable')
    except ImportError:
        print('jsonschema unavailable; wrote MANIFEST.json unvalidated')


NA_REASONS = {}

if __name__ == '__main__':
    main()
