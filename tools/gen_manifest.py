#!/venv/bin/python
"""Generate /verif/MANIFEST.json from the table below (and validate it against the schema).

A property is claimed only when rules/<id>.py exists; everything else is listed under
not_applicable with its reason.
"""
import json
import os
import sys

HERE = os.path.dirname(os.path.dirname(os.path.abspath(__file__)))

COMMON_NOTE = (
    'Trusted base: CPython 3.12 semantics of threading/queue/concurrent.futures/asyncio/multiprocessing/pickle; '
    "the engine's own CFG construction and name resolution (guarded by the self-test). "
    'Decides structural necessary conditions only; value-level and timing clauses of the property are declined (DESIGN.md section 4).'
)

# id -> (technique, what the check gives, DESIGN ref)
CLAIMS = {
    'C01': (
        'ast + per-function CFG with exception edges; definite-assignment-since-loop-head (FRESH), reaching definitions (ORIGIN), per-iteration min/max event counts (COUNT), who-may-put/get (WHO)',
        'Decides, on every CFG path of the feeder and consumer of fifo_stream, of SingleLane.put/get and of the two submit wrappers, the structural clauses: the future enqueued with an element is produced from that element in the same iteration; exactly one hand-off per element; consumer unpacks in producer order, yields the outcome of that very future exactly once per dequeue; the hand-off queue is a FIFO with one producer and one consumer. Not verified: the value-level statement (outputs equal f(inputs)) and executor internals.',
        'DESIGN.md 4/C01',
    ),
    'C16': (
        'ast + CFG dataflow (FRESH/ORIGIN/COUNT) on the async feeder/consumer; sibling event-language comparison sync vs async; keyword-mapping agreement of the delegating call sites',
        'Decides that async_fifo_stream has the same pairing/one-hand-off/one-yield structure as fifo_stream (in particular that an element rejected by the preprocessor is enqueued with its own pre-failed future on every path), and that Server.stream/AsyncServer.stream and the parmapper classes delegate with the same flag mapping. Not verified: equality of produced values.',
        'DESIGN.md 4/C16',
    ),
}

NOT_YET = 'check not built yet in this session (rules planned in DESIGN.md section 4); not claimed until its rules exist'


def main():
    props = [json.loads(l) for l in open(os.path.join(HERE, 'properties.jsonl'))]
    checks, na = [], []
    for p in props:
        pid = p['id']
        have = os.path.exists(os.path.join(HERE, 'rules', f'{pid.lower()}.py'))
        if pid in CLAIMS and have:
            tech, text, ref = CLAIMS[pid]
            checks.append(
                {
                    'property_id': pid,
                    'quick_cmd': f'./check {pid} --tier quick',
                    'thorough_cmd': f'./check {pid} --tier thorough',
                    'evidence_file': f'/verif/evidence/{pid}.json',
                    'replay_cmd_template': f'./check {pid} --replay {{path}}',
                    'engine': 'mpsa',
                    'level_claimed': {'category': 'other', 'text': text, 'design_ref': ref},
                    'level_note': COMMON_NOTE,
                    'technique': 'static analysis: ' + tech,
                }
            )
        else:
            na.append({'property_id': pid, 'reason': NA_REASONS.get(pid, NOT_YET)})
    man = {
        'version': 1,
        'setup_cmd': '/venv/bin/python -m compileall -q mpsa rules selftest check >/dev/null 2>&1; /venv/bin/python -c "import ast,sys; sys.path.insert(0,\'.\'); import mpsa.cfg, mpsa.flow, mpsa.report"',
        'hooks': {
            'guard': 'ZPZ_MPSERVICE_VERIF',
            'enable': 'none needed: the checks are static (ast of /repo/src/mpservice); no instrumentation was added to the repository',
            'baseline_off_cmd': 'cd /repo && /venv/bin/python -m pytest -ra -q -p no:cacheprovider --timeout=900 --continue-on-collection-errors',
            'source_commits': [],
            'add_only': True,
        },
        'engines': [
            {
                'name': 'mpsa',
                'path': '/verif/mpsa',
                'serves_properties': [c['property_id'] for c in checks],
                'kind_free_text': 'repository-specific static analyser: ast loader + symbol tables, statement-level CFG with exception/generator edges, dataflow (definite assignment, reaching defs, lock sets, guard facts), path rules (must-pass-through, dominance, min/max event counts), who-may-call tables; rules/cXX.py encode the per-property rules',
            }
        ],
        'checks': checks,
        'not_applicable': na,
        'notes': 'Static analysis only: nothing from /repo is imported or executed by any check. Exit 2 + ANALYSIS-ERROR means the checker is blind (vanished anchor / too few rule instances), which is neither a pass nor a violation. Known findings: /verif/known_findings.txt.',
    }
    out = os.path.join(HERE, 'MANIFEST.json')
    json.dump(man, open(out, 'w'), indent=1)
    # validate
    try:
        sys.path.insert(0, '/opt/veriftools/pyvenv/lib/python3.11/site-packages')
        import jsonschema

        jsonschema.validate(man, json.load(open('/root/.vp/MANIFEST.schema.json')))
        print('MANIFEST.json valid;', len(checks), 'claimed,', len(na), 'not applicable')
    except ImportError:
        print('jsonschema unavailable; wrote MANIFEST.json unvalidated')


NA_REASONS = {}

if __name__ == '__main__':
    main()
