#!/venv/bin/python
"""Generate /verif/MANIFEST.json from the table below (and validate it against the schema).

A property is claimed only when rules/<id>.py exists; everything else is listed under
not_applicable with its reason.
"""
import json
import os
import sys

HERE = os.path.dirname(os.path.dirname(os.path.abspath(__file__)))

COMMON_NOTE = (
    'Trusted base: CPython 3.12 semantics of threading/queue/concurrent.futures/asyncio/multiprocessing/pickle; '
    "the engine's own CFG construction and name resolution (guarded by the self-test). "
    'Decides structural necessary conditions only; value-level and timing clauses of the property are declined (DESIGN.md section 4).'
)

# id -> (technique, what the check gives, DESIGN ref)
CLAIMS = {
    'C01': (
        'ast + per-function CFG with exception edges; definite-assignment-since-loop-head (FRESH), reaching definitions (ORIGIN), per-iteration min/max event counts (COUNT), who-may-put/get (WHO)',
        'Decides, on every CFG path of the feeder and consumer of fifo_stream, of SingleLane.put/get and of the two submit wrappers, the structural clauses: the future enqueued with an element is produced from that element in the same iteration; exactly one hand-off per element; consumer unpacks in producer order, yields the outcome of that very future exactly once per dequeue; the hand-off queue is a FIFO with one producer and one consumer. Not verified: the value-level statement (outputs equal f(inputs)) and executor internals.',
        'DESIGN.md 4/C01',
    ),
    'C16': (
        'ast + CFG dataflow (FRESH/ORIGIN/COUNT) on the async feeder/consumer; sibling event-language comparison sync vs async; keyword-mapping agreement of the delegating call sites',
        'Decides that async_fifo_stream has the same pairing/one-hand-off/one-yield structure as fifo_stream (in particular that an element rejected by the preprocessor is enqueued with its own pre-failed future on every path), and that Server.stream/AsyncServer.stream and the parmapper classes delegate with the same flag mapping. Not verified: equality of produced values.',
        'DESIGN.md 4/C16',
    ),
    'C02': (
        'ast + CFG: FRESH closure (cyclic-path staleness) down to queue gets at every (id, payload) put, per-iteration COUNT on the id side queues, dominance (PRECEDE) of ledger/catalog stores over sends, ORIGIN of request ids, AGREE of ensemble member index',
        'Decides the structural clauses: every message put in a service loop of the worker/servlet code carries an id and payload obtained in the same iteration on every path; one id enqueued per input handed to Worker.stream and one dequeued per output (FIFO side queue); the ledger entry is stored before the input is sent; request ids are never minted with builtin id(); the ensemble catalog is stored before member sends, looked up with the message id, filled at the member index, popped exactly once before each emit; gather resolves the future popped with the message id with that message payload. Not verified: that the stages compute the configured composition (value-level).',
        'DESIGN.md 4/C02',
    ),
    'C05': (
        'ast + CFG with exception and generator thrown-in edges: EXITS enumeration of producer and consumer exits under the raise-set {Exception, StopRequested}; AGREE of terminal vocabularies; COUNT + LINEAR counting argument for the finaliser join; PAIR of started helpers',
        'For the five producer/consumer pairs (fifo_stream, async_fifo_stream, Buffer, AsyncBuffer, SyncIter): every producer exit puts a terminal item; the consumer recognises every terminal item the producer can send; every abnormal consumer exit (GeneratorExit thrown in at each yield, failures) sets the stop flag the producer polls each iteration; the producer join cannot wedge on a full queue (liveness-conditioned timed drain, or puts-after-drain <= guaranteed slots); helper threads/tasks/executors are joined or shut down on all exits. Not verified: bounded time in seconds, executor internals.',
        'DESIGN.md 4/C05',
    ),
    'C06': (
        'ast + CFG: MUSTPASS (guard re-evaluated between Condition.wait and ledger insert, with LINEAR normalisation of the guard), HELD lock regions, PRECEDE (no effect before a rejection), per-iteration COUNT of admission signals, WHO (single writer / single deleter of the ledger)',
        'For Server and AsyncServer: the capacity guard len(ledger) >= capacity is re-evaluated after every wake-up and on every path to the insert, inside one region of the admission lock; a rejected request has stored/sent nothing; the gather loop pops the ledger unconditionally per message and signals the admission condition exactly once per popped entry (notify under the lock); only the admission function writes and only the gather loop deletes ledger entries; the wait is bounded by the caller timeout. Not verified: fairness, exact expiry instants, the numeric backlog itself.',
        'DESIGN.md 4/C06',
    ),
    'C07': (
        'ast + CFG with InvalidStateError/KeyError fallibility on the gather loop: EXITS (no such exception can leave the loop), WHO (what _wait_for_result and the stream cleanup may touch)',
        'Direct set_result/set_exception in the gather thread on a future the caller may cancel is protected (InvalidStateError handled inside the loop) or deferred to the event loop - a bare cancelled() check is reported as check-then-act; an unknown id is tolerated; abandonment only cancels the caller\'s own future and never touches ledger, queues or condition; timed-out callers do not delete their ledger entry. Not verified: which of late result / timeout wins.',
        'DESIGN.md 4/C07',
    ),
    'C09': (
        'ast + CFG: GUARD (path-sensitive isinstance/None facts with disjunctive states), COUNT (append vs counter, destinations per request), deadline-shape dataflow, WHO on the batch buffer, HELD for wait discipline',
        'Values handed to the batch buffer and to Worker.stream are proven non-exception/non-RemoteException on every path, items appended to a batch are proven not None; a batch starts with one element and grows by one per counted iteration under a strict < batch_size guard; every dequeued request goes to exactly one of buffer/output; only the first get of a batch is untimed, later gets are bounded by a deadline fixed after the first element from batch_wait_time and queue.Empty releases the batch; the batch buffer is single-producer/single-consumer; predicates governing untimed Condition.wait() are evaluated under the lock. Not verified: wall-clock accuracy, fairness between workers.',
        'DESIGN.md 4/C09',
    ),
    'C10': (
        'ast + CFG of Fork.__next__: may/must lock sets (HELD), EXITS with the source as user code, a wait-for graph over {source lock, window slots} (WAITFOR) including the tail call into the next activation, PRECEDE, MUSTPASS',
        'The source lock is released on every exit including a raising source; no untimed acquisition of the source lock precedes the consume step while a put under the lock can block (no cycle of unbounded waits); the element is linked before the blocking put; every pull is under the lock after an under-lock re-test; counter increment, comparison with n_forks and window pop are one region of the element lock. Not verified: that every fork observes the source exception; element values.',
        'DESIGN.md 4/C10',
    ),
    'C12': (
        'ast + CFG with the target as user code raising any BaseException and Connection.recv raising {EOFError, Exception}: whole-function COUNT of resolutions / sends per path, EXITS, PRECEDE (joins dominate reads of the future), SIBLING agreement of the four wait/as_completed maps',
        'Thread.run resolves its future exactly once on every path and never raises; the child sends exactly one (result, error) pair of an allowed kind on every way the target ends and closes the pipe on every exit; the collector resolves the future exactly once on every exit (result, EOF after a signal, failing recv) and cannot die with it pending; join/result/exception read the future only after the OS-level join, the collector join and a passed finished-test; wait/as_completed index and look up by the same key. Not verified: exit-code values, signal timing.',
        'DESIGN.md 4/C12',
    ),
    'C03': (
        'ast taint / shape rules over all streamlet constructors and operator methods, per-iteration COUNT for Mapper/Filter, PRECEDE for batch ownership',
        'THIN. Decides only: building a pipeline never iterates / next()s / eagerly consumes the incoming stream; every operator consumes its input as the iterable of a loop that yields or hands it to a lazy combinator (Tailer/Shuffler exempt, memory bounded); Mapper yields func(element) exactly once and Filter at most the element itself per element; every operator method appends exactly one streamlet built on self.streamlets[-1] and returns self (or delegates); Peeker and the filter_exceptions predicate are identities; a yielded batch is never mutated. Declined: the equivalence with the sequential meaning for all inputs and operator sequences (value-level).',
        'DESIGN.md 4/C03',
    ),
    'C04': (
        'ast + CFG: EXITS (user-code exceptions contained per request), GUARD (path-sensitive isinstance facts with disjunctive states) at every output put and every hand-over to user code / member stages, FRESH for the batch error fan-out',
        'Every call of per-request user code (Worker.call via stream, preprocess) is contained by a handler that makes the exception that request value and stays in the loop; every value put on an output queue is a RemoteException, proven not an Exception, or fresh data on every path; values handed to user code / member stages are proven clean and the exception path short-circuits; a failed batch fans its error out over exactly the ids of this batch; gather unwraps RemoteException and calls set_exception iff BaseException. Not verified: traceback text content (C15), the numeric EnsembleError rules.',
        'DESIGN.md 4/C04',
    ),
    'C08': (
        'LINEAR evaluation of queue / pool / capacity expressions over the bound parameter with assert-derived lower bounds; WHO/taint on the producer loop; known-finding mechanism for C08-4',
        'The hand-off queues of fifo_stream, async_fifo_stream, Buffer, AsyncBuffer have size a*p+b with a<=1, b<=1 and lower bound >=1; producers hand over with the blocking put only and keep pulled elements nowhere else; executors are created with max_workers = concurrency and fifo capacity 2*concurrency; implementations that start the invocation at submission must gate by a semaphore (reported as KNOWN-FINDING for the two async parmappers, see known_findings.txt). Not verified: executor internals, actual instantaneous counts.',
        'DESIGN.md 4/C08',
    ),
    'C11': (
        'ast + CFG: EXITS with launch steps as fallible (rollback before re-raise), per-iteration COUNT of start/handshake, PRECEDE on the exit order, PAIR (started attributes joined in stop), sentinel MUSTPASS per service loop from a reasoned table',
        'Every exceptional exit of a start() after a launch passes a stopper and re-raises; one start and one handshake per worker, Worker.run puts exactly one handshake; when an onboarding thread exists its end marker and join dominate servlet.stop(); every attribute receiving a started thread/process is joined in stop / the exit, compound servlets stop every member; the started flag is set only after the last launch and reset by stop, per-run queues are not created in __init__; every service loop forwards the sentinel to the queues it is responsible for and terminates. Not verified: sentinel overtaking between stages with work in flight (conceded by the Servlet.stop docstring), OS-level reaping.',
        'DESIGN.md 4/C11',
    ),
    'C13': (
        'EFFECT analysis: whole-function COUNT of +1/-1 reference-count events per CFG path with an owner obligation (registered finaliser), AGREE between picklers and RebuildProxy, PRECEDE in Server.create',
        'Proxy construction increments exactly once and registers a finaliser bound to _decref with the same token and an exit priority; _decref decrements exactly once; __reduce__ increments exactly once on every path and overrides go through super(); RebuildProxy constructs with an increment that is independent of process state and compensates exactly once after construction; create() registers object and count entry before the proxy is built; MemoryBlock finaliser closes and unlinks the same SharedMemory. Not verified: histories of create/copy/pass/drop (the counts themselves), finaliser execution at interpreter exit.',
        'DESIGN.md 4/C13',
    ),
    'C14': (
        'AGREE of message-kind tables (including the installed stdlib convert_to_error, parsed not imported from the repo), EXITS containment, method-name tables checked against the builtin referent types, GUARD/MUSTPASS on the in-server shortcut',
        'THIN. Every message kind the server can produce is consumed by the proxy or convert_to_error; a hosted-method exception becomes (#ERROR, RemoteException(e)) and the serve loop survives a failing dispatch; every add_proxy_methods name exists on the registered referent type and the generated method forwards name/args/kwargs; on the in-server shortcut the RemoteException wrapper is rebuilt into the original exception before raise convert_to_error. Declined: round-trips, visibility of state changes, liveness of managed values (value-level).',
        'DESIGN.md 4/C14',
    ),
    'C15': (
        'AGREE (reduce/rebuild, storage attribute, EnsembleError args), GUARD on RemoteException.__init__ (text produced on every non-raising path)',
        'THIN. __reduce__ returns (_rebuild_exception, (self.exc, self.tb)) and the rebuild function reattaches RemoteTraceback(tb) as __cause__; on every non-raising path of __init__ the stored text was given, formatted from a traceback or forwarded from the remote one; the forwarded text is reused only when there is no own traceback; storage attribute and remoteness test agree; EnsembleError round-trips its results and nested members are re-wrapped. Declined: arbitrary picklable exception classes, hop counts, text equality.',
        'DESIGN.md 4/C15',
    ),
    'C17': (
        'ast + CFG: HELD (one lock region around move-token-and-test-full, lock carried in the pickled state), COUNT of token/marker moves per path, PRECEDE in renew, EXITS of the responsive wait loop',
        'applied.get / used.put / the following used.full() are one region of a lock that travels with the object; put_end, a consumed marker and renew conserve tokens and markers exactly (renew removes the marker before recycling); ResponsiveQueue waits in slices of min(wait interval, remaining), tests the stop event after each expiry, re-raises Full/Empty on expiry and can only return the result of the delegated call; IterableQueue wraps whenever a stop event is given. Not verified: exactly-once delivery of data items (delegated to the underlying queue), cross-process sampling.',
        'DESIGN.md 4/C17',
    ),
    'C18': (
        'AGREE of writer/reader framing and codec tables, FRESH closure on id routing, suspension-point check between send and record, WHO for connection writers, fifo pattern rules on SocketClient.stream, AGREE of pipe suffixes',
        'Header is id SP len(bytes) SP encoder LF followed by those bytes, read with readuntil/readexactly(int(len)); encode/decode tables are inverse; server and client route by ids obtained in the same iteration, int on both sides; no await between the completed send and recording the future; one writer task per connection; handler exceptions become RemoteException for that request; stream pairs element and future freshly through an SPSC FIFO; pipe ends are cross-wired read-only/write-only Connections. Not verified: payload intactness itself (pickle + asyncio streams trusted), sizes.',
        'DESIGN.md 4/C18',
    ),
    'C19': (
        'ast + CFG of EagerBatcher.__iter__: COUNT (placements per item, yields per batch, append vs counter), marker-branch MUSTPASS, deadline-shape dataflow, PRECEDE for batch ownership',
        'Every dequeued item that is not the end marker (both forms) is placed in exactly one batch and the marker never is; every started batch is yielded exactly once (full, wait expired, or flushed by the marker); batches start with one element and grow by one per counted iteration under a strict < batch_size guard; only the first get is untimed, later gets are bounded by a deadline fixed after the first element from batch_wait_time, queue.Empty releases the batch; a yielded batch is not mutated. Not verified: virtual-time claims.',
        'DESIGN.md 4/C19',
    ),
    'C20': (
        'ast + CFG: PRECEDE with observed-dead edges (exitcode tests / untimed OS join) before the parent-side end marker, path-sensitive MUSTPASS for handler install/removal around the target, WHO for readers of the log queue',
        'The parent enqueues the end marker of its log reader only on paths that observed the child dead; the queue handler is installed before the target runs and removed (queue closed) in the finally on every exit; failures are reported before the error is sent; only the single logger thread reads the queue, started exactly once per start(), records gated only by level. Not verified: volumes, ordering inside multiprocessing.Queue.',
        'DESIGN.md 4/C20',
    ),
}

NOT_YET = 'check not built yet in this session (rules planned in DESIGN.md section 4); not claimed until its rules exist'


# clauses taken up after the plan (DESIGN.md 11.3): appended to the claim text / technique of the property
ADDENDA = {
    'C02': ('; GUARD at the routing sinks of the compound servlets', ' Also: a compound servlet hands a value to switch()/a member stage only when it is proven not an exception value (C02-7).'),
    'C03': ('; typestate (Empty/Pending/Yielded) of accumulating containers, per-iteration conservation (MUSTPASS+COUNT), counter/yield balance for head', ' Also (C03-6..8): every pulled element is stored or yielded on every path of its iteration, a container is never yielded empty or twice and is flushed on every normal end, head counts exactly, tail keeps deque(maxlen=n); Buffer/AsyncBuffer/SyncIter relay every element once and end only on the end marker; SingleLane cannot lose a wake-up.'),
    'C04': ('', ' Also: the argument of preprocess() in the single-item reader is a genuine input; every exception member of every EnsembleError is re-wrapped before the next hop (C04-7).'),
    'C05': ('; PAIR of async producer and its driver', ' Also: async producers are driven by asyncio.run or an explicit shutdown_asyncgens on every exit (C05-6).'),
    'C06': ('; GUARD on the backpressure flag; FRESH of the wait bound w.r.t. the clock', ' Also: with backpressure no wait on the admission condition is reachable (C06-7); a wait inside the re-check loop is bounded by the time remaining (C06-8).'),
    'C07': ('; EXITS/COUNT of the stream clean-up', ' Also: the stop-flag and join-safety obligations of fifo_stream/async_fifo_stream (abandoned Server.stream) are decided here as C07-5.'),
    'C09': ('; configuration pass-through (GUARD on `is None`)', ' Also: a value returned by user preprocess is not clean by derivation; the configured batch_wait_time reaches the loop unchanged (default only for None); a short batch is closed only after the queue was asked in that iteration.'),
    'C11': ('; EXITS of the worker after its handshake', ' Also: after the handshake everything the worker runs lies inside the guarded region of Worker.start (C11-7).'),
    'C12': ('; MUSTPASS in the catch-all handler; ORIGIN of the kwargs mapping', ' Also: Thread.run attaches the traceback text on every storing path (C12-6); the write end of the result pipe lives only in a mapping created by SpawnProcess.__init__ (C12-7).'),
    'C14': ('; EXITS of the reply send; AGREE of get_server call sites', ' Also: an unserialisable reply is answered inside the serve loop for any Exception (C14-5); Server.create initialises the count entry only if absent (C14-6); the in-process shortcut is taken only for get_server(token.address) (C14-7).'),
    'C15': ('; MUSTPASS in the rebuild function; implied-by test for guard narrowing', ' Also: the RemoteTraceback is attached on every path of the rebuild function; tracebacks are formatted with the chain; is_remote_exception and the EnsembleError re-wrap are not narrower than documented.'),
    'C18': ('; WHO on the client in-flight table', ' Also: only the receiving task removes entries from the in-flight table whose keys are object addresses (C18-9); pipe ends are opened blocking.'),
    'C19': ('; configuration pass-through; MUSTPASS of the queue query before a short batch is closed', ' Also: the configured wait reaches the loop unchanged; a short batch is closed only after the queue was asked in that iteration; the custom end marker is compared with ==.'),
}
# rules added in the third and fourth seeding rounds (DESIGN.md 11.3), per property: (technique suffix, note suffix)
ADDENDA2 = {
    'C01': ('; finite-domain evaluation of the SingleLane wait predicates; ORIGIN of the executor', ' Also: SingleLane waits exactly at full / empty and notifies unconditionally (C01-4); executor wrappers forward unchanged (C01-7); feeder parameters are positional-only (C01-8); the handler that turns a failure into an output catches Exception at most (C01-3f); the pool is constructed by the iteration that uses it (C01-9).'),
    'C02': ('', ' Also: after a recorded member answer the request is emitted or its completion test evaluated on every path (C02-5); slot-return obligations cross-listed (C02-8).'),
    'C03': ('; marker identity (AGREE); per-consumption state (ORIGIN)', ' Also: end markers of the in-process relays are recognised by identity, relay state is created per consumption (C03-7); stop-flag and consumer-pairing obligations of buffer / parmap inside a chain (C03-9).'),
    'C04': ('', ' Also: the members of a failed batch receive the batch\'s own exception object, wrapped (C04-4); preprocess is looked up on the worker object (C04-9).'),
    'C05': ('; marker identity; per-consumption state (ORIGIN)', ' Also: no source pull is in flight while the sync-to-async adapter is suspended (C05-7); SingleLane cannot lose a wake-up (C05-8); relay state is created per consumption (C05-9); markers by identity (C05-2).'),
    'C06': ('; MUSTPASS from the notified return of Condition.wait', ' Also: timeouts passed through as given (C06-9), ensemble catalog (C06-10), the class the library raises is caught (C06-11), one deadline per request (C06-12), a wake-up is not wasted (C06-13).'),
    'C07': ('; MUSTPASS from the notified return of Condition.wait; PAIR of stop order', ' Also: members are stopped in start order and sentinels forwarded (C07-6); a woken waiter that gives up re-evaluates the guard or passes the wake-up on (C07-7).'),
    'C08': ('; ORIGIN of the executor', ' Also: SingleLane obligations (C08-5), stop flag on every abnormal consumer exit (C08-6), the pool is private to the iteration (C08-3).'),
    'C09': ('; relational abstract interpretation of len(batch) against batch_size over {<,==,>}', ' Also: the size bound is decided for any loop form (C09-2, rules/sizebound.py); a started batch is handed over on every exit, queue locks are per queue (C09-7/-8); preprocess is looked up on the worker object (C09-9); the remaining time is clamped for queues that reject negative timeouts, deadlines use a monotonic clock (C09-4).'),
    'C10': ('; AGREE of the fork count', ' Also: the window has exactly buffer_size slots, exhaustion by StopIteration only (C10-7); every fork is told the number of forks that are created (C10-8).'),
    'C11': ('', ' Also: a dispatcher thread is started after every fallible member launch (C11-1); slot return whatever the state of the future (C11-8).'),
    'C12': ('; closed-world fallibility incl. constructors of computed classes; finite-domain evaluation of the SystemExit handler; ORIGIN of the future', ' Also: two reapers (C12-10), sys.exit classification (C12-11), the finished path always consults the outcome and accessors wait only for worker / collector / future (C12-4), the future exists when start() returns (C12-12).'),
    'C13': ('; fallible remote increment; typestate of the connection cache', ' Also: a swallowed failure of the remote increment is counted as none (C13-1/-2); the server is looked up by token.address (C13-6); a closed cached connection leaves the cache (C13-7).'),
    'C14': ('; typestate of the connection cache; DATAFLOW of the proxy decision', ' Also: the shortcut is taken only for get_server(token.address) (C14-7); the registry only grows (C14-9); a closed cached connection leaves the cache (C14-10); proxy or copy is decided by the method table alone (C14-11).'),
    'C15': ('', ' Also: the re-wrap loop visits every slot, __reduce__ names type(self) (C15-5); every hop that forwards a worker result re-wraps an exception value (C15-6).'),
    'C16': ('', ' Also: the C05 obligations of the async variants (C16-5), the class the library raises is caught (C16-6), servlets re-enterable (C16-7), the admission obligations of AsyncServer (C16-8).'),
    'C17': ('; GUARD on a positive isinstance test', ' Also: state travels through __getstate__/__setstate__ (C17-4), timeouts passed through (C17-5), token arithmetic (C17-6), thread-only helpers only for positively identified thread queues (C17-7).'),
    'C18': ('; codec agreement by family; AGREE of the codec parameter', ' Also: timeouts passed through (C18-10), SingleLane obligations (C18-11), the caller\'s codec is the codec used (C18-12), a timeout is raised only by the wait on the future (C18-13).'),
    'C19': ('; relational abstract interpretation of len(batch) against batch_size over {<,==,>}', ' Also: the size bound is decided for any loop form (C19-2); the end marker is recognised in both forms, by value (C19-1).'),
    'C20': ('; WHO may put on the log queue; MUSTPASS of the flag reader', ' Also: the log reader stops only when the child-ended flag had been read true before an empty look at the queue, and the flag is set only after the child was observed dead (C20-1); the forwarding handler is the standard QueueHandler (C20-2); nothing needed at the end is created at the end (C20-5); the parent never puts on the log queue while the child may be alive (C20-6).'),
}
# rules added in the fresh round and by the systematic cross-listing pass (DESIGN.md 11.3)
ADDENDA3 = {
    'C02': ' Also: the onboarding thread survives an input that cannot be pickled (C04-11) and per-request user code is contained (C04-1), both decided under C02-8.',
    'C03': ' Also: constructors read nothing from their input (C03-1); head tests its limit before the next pull (C03-6); class collections reach isinstance as tuples (C03-10); terminal item, vocabulary, stop flag and join safety of the fifo pairs (C03-9).',
    'C04': ' Also: an outcome is taken apart only after the exception test (C04-10); an input that cannot be pickled fails alone (C04-11); the gather loop cannot be ended by one request (C04-12).',
    'C05': ' Also: the consumer leaves its loop only on the end marker (C05-10).',
    'C06': ' Also: a guard on a local copy of the ledger size is read under the lock and again after every wait (C06-2); the gather thread stays alive (C06-14).',
    'C07': ' Also: the expiry handler ends in a raise on every path (C07-3).',
    'C09': ' Also: per-request user code in the collector is contained (C09-10).',
    'C10': ' Also: links of element boxes are write-once (C10-9).',
    'C11': ' Also: the rollback walks a prefix of the members (C11-1); join() of a worker that failed to initialise raises, not hangs (C11-9); an abandoned Server.stream lets go (C11-10).',
    'C12': ' Also: the outcome is tested with `is not None`, never by truthiness (C12-4).',
    'C13': ' Also: the finaliser is registered only after the increment has succeeded (C13-1).',
    'C14': ' Also: the reference-count obligations of C13 (C14-12); the exception is wrapped with a traceback formatted at this site (C14-13).',
    'C15': ' Also: no frame limit when the traceback is formatted (C15-3).',
    'C17': ' Also: the remaining time is recomputed in every pass (C17-3); put_end stays responsive while it waits for the next round (C17-8).',
    'C18': ' Also: the request queue between the tasks of a connection is created per connection (C18-14).',
    'C20': ' Also: the object finaliser that can end the log reader carries no exit priority (C20-1).',
}
# rules added in the second fresh round f6 (DESIGN.md 11.3)
ADDENDA4 = {
    'C01': ' Also: the pool a parmapper creates has `concurrency` workers whatever the input (C01-10).',
    'C02': ' Also (C02-8): the outcome is taken apart only after the exception test, the batch deadline, what is wrapped is never already a wrapper (C04-2), and an upstream failure never becomes an element of a batch (C04-3).',
    'C03': ' Also: the "no initializer" state of accumulate is a private sentinel tested by identity (C03-11); the hand-off queue of every fifo pair is bounded by the look-ahead asked for, pair freshness and a single hand-off (C03-9).',
    'C04': ' Also: the argument of RemoteException in a service loop is never a value that can already be a RemoteException (C04-2); every consumed message returns its slot (C04-12); the C15 obligations on type, args and traceback text (C04-13).',
    'C05': ' Also: leaving `with executor:` waits for the calls still running — the pool classes keep the standard exit (C05-11).',
    'C06': ' Also: the thread that feeds the first process stage survives an input whose pickling fails, whatever the error class (C06-15).',
    'C07': ' Also: the deadline stored with a request is anchored at its arrival, before the admission wait (C07-8).',
    'C08': ' Also (C08-3): the pool size is `concurrency` whatever the input, the pool exit waits, and the async-worker parmappers hand 2*concurrency to the fifo functions.',
    'C09': ' Also: what is wrapped is never already a wrapper (C09-10); a message is never put on the batch buffer as dequeued (C09-1); a batch reaches call() as a list (C09-11).',
    'C10': ' Also: every release of the source lock is reached only with the lock held by this activation (C10-1); an explicit StopIteration is raised only after the fork\'s own state showed that it has delivered elements (C10-10).',
    'C11': ' Also: every consumed message returns its slot (C11-8); onboarding, containment and wrapping of the service loops (C11-11).',
    'C12': ' Also: the override of _bootstrap consults the code the standard bootstrap returned (C12-13).',
    'C13': ' Also: the bookkeeping of Server.create is one region of the server mutex (C13-4); no Server method releases or unlinks the resources of a hosted value (C13-5).',
    'C14': ' Also: after the #ERROR message was built nothing else is decided for the call (C14-14).',
    'C15': ' Also: the traceback formatted is the one handed over or the exception\'s own on the branch that found one (C15-3).',
    'C17': ' Also: no wait on the data queue while the token lock is held (C17-9).',
    'C20': ' Also: nothing that can log runs in the child after the forwarding handler was removed (C20-7).',
}
# rules added in round r7 (DESIGN.md 11.3)
ADDENDA5 = {
    'C01': ' Also: the submit overrides take the callable positional-only (C01-11); the per-pass state of ParmapperAsync is created by __iter__ (C01-12).',
    'C05': ' Also: a timed join of a helper thread does not count as a join (C05-5); join() of mpservice.threading.Thread returns normally only after the OS-level join (C05-12).',
    'C07': ' Also: the clean-up of async_fifo_stream swallows CancelledError and Exception of every cancelled task (C07-9).',
    'C08': ' Also (C08-2): the consumer moves nothing from the hand-off queue into a second container.',
    'C09': ' Also: the batch size is stored as given, None alone is replaced — finite-domain evaluation of the constructor (C09-12); the handler that closes a batch catches the time-out classes only (C09-4).',
    'C11': ' Also (C11-2): the join of the worker whose __init__ failed is untimed.',
    'C13': ' Also (C13-5): MemoryBlock.buf hands out the buffer of the SharedMemory itself.',
    'C14': ' Also: a cache of generated proxy types is keyed by the exposed methods too (C14-15).',
    'C18': ' Also: the responding task leaves its loop only from the handler of the idle request queue (C18-15); the response clock starts after the enqueue call (C18-16).',
    'C19': ' Also (C19-3): the handler that closes a batch catches queue.Empty only; no positive floor on the remaining time.',
    'C20': ' Also (C20-3): the daemon flag of the log-reader thread evaluates to False for a process that is not a daemon.',
}
# rules added in round r8 (DESIGN.md 11.3)
ADDENDA6 = {
    'C01': ' Also (C01-3): no handler in front of the return_exceptions handler takes a class of Exception away.',
    'C02': ' Also (C02-8): what the ensemble stores in a result slot is a RemoteException or proven not an exception (C04-2).',
    'C05': ' Also: every streamlet iterator over an upstream is a generator function (C05-13).',
    'C06': ' Also: the routing threads of compound servlets hand no exception value to switch() or a member (C06-16).',
    'C07': ' Also (C07-8): the admission wait of every pass is what is left of the timeout.',
    'C08': ' Also (C08-3): the worker function of AsyncParmapper runs on the sized pool only; the fifo functions read the source itself.',
    'C09': ' Also: the timeout of SingleLane.get / put reaches the condition wait as given (C09-13); nothing comes off the buffer into a batch untested (C09-1).',
    'C10': ' Also: the handler that records the end of the source catches StopIteration alone (C10-11).',
    'C12': ' Also: the outcome is read before anything waits for the child to end (C12-14); on EOF the exit code is used only once it is set (C12-15).',
    'C13': ' Also (C13-4): create() never un-hosts an object.',
    'C14': ' Also: the receipt of the request is covered by the handler that answers #TRACEBACK (C14-16); the exposed names come from the hosted object (C14-17).',
    'C16': ' Also: the per-pass state of ParmapperAsync is created by __iter__ (C16-9).',
    'C17': ' Also: ResponsiveQueue.put retries on Full, get on Empty (C17-10).',
    'C18': ' Also: the pipe methods hand their parameters on unchanged (C18-8); write_record puts no clock on drain() (C18-17).',
    'C20': ' Also: SpawnContext.get_context returns the package\'s own context for None / "spawn" (C20-8).',
}
COMMON_NOTE = COMMON_NOTE + (
    ' Before the rules run, the syntax tree (never the files) is normalised: while/next loops are read as for loops, functions the rules look up by name that were renamed consistently are mapped back through body fingerprints (anchors.json), '
    'calls of helpers that do not exist in the confirmed tree are read in place when that is exact, assignment expressions are desugared, annotated assignments, import aliases and written-out increments are read as their plain forms, locals / temporaries / module constants that the confirmed tree does not have are read as what they stand for, and locals, private attributes and classes that were renamed consistently are read under their recorded names; every name mapping is printed and recorded in the evidence notes.'
)


def main():
    props = [json.loads(l) for l in open(os.path.join(HERE, 'properties.jsonl'))]
    checks, na = [], []
    for p in props:
        pid = p['id']
        have = os.path.exists(os.path.join(HERE, 'rules', f'{pid.lower()}.py'))
        if pid in CLAIMS and have:
            tech, text, ref = CLAIMS[pid]
            if pid in ADDENDA:
                tech, text = tech + ADDENDA[pid][0], text + ADDENDA[pid][1]
            if pid in ADDENDA2:
                tech, text = tech + ADDENDA2[pid][0], text + ADDENDA2[pid][1]
            if pid in ADDENDA3:
                text = text + ADDENDA3[pid]
            if pid in ADDENDA4:
                text = text + ADDENDA4[pid]
            if pid in ADDENDA5:
                text = text + ADDENDA5[pid]
            if pid in ADDENDA6:
                text = text + ADDENDA6[pid]
            checks.append(
                {
                    'property_id': pid,
                    'quick_cmd': f'./check {pid} --tier quick',
                    'thorough_cmd': f'./check {pid} --tier thorough',
                    'evidence_file': f'/verif/evidence/{pid}.json',
                    'replay_cmd_template': f'./check {pid} --replay {{path}}',
                    'engine': 'mpsa',
                    'level_claimed': {'category': 'other', 'text': text, 'design_ref': ref},
                    'level_note': COMMON_NOTE,
                    'technique': 'static analysis: ' + tech,
                }
            )
        else:
            na.append({'property_id': pid, 'reason': NA_REASONS.get(pid, NOT_YET)})
    man = {
        'version': 1,
        'setup_cmd': '/venv/bin/python -m compileall -q mpsa rules selftest check >/dev/null 2>&1; /venv/bin/python -c "import ast,sys; sys.path.insert(0,\'.\'); import mpsa.cfg, mpsa.flow, mpsa.report"',
        'hooks': {
            'guard': 'ZPZ_MPSERVICE_VERIF',
            'enable': 'none needed: the checks are static (ast of /repo/src/mpservice); no instrumentation was added to the repository',
            'baseline_off_cmd': 'cd /repo && /venv/bin/python -m pytest -ra -q -p no:cacheprovider --timeout=900 --continue-on-collection-errors',
            'source_commits': [],
            'add_only': True,
        },
        'engines': [
            {
                'name': 'mpsa',
                'path': '/verif/mpsa',
                'serves_properties': [c['property_id'] for c in checks],
                'kind_free_text': 'repository-specific static analyser: ast loader + symbol tables, statement-level CFG with exception/generator edges, dataflow (definite assignment, reaching defs, lock sets, guard facts), path rules (must-pass-through, dominance, min/max event counts), who-may-call tables; rules/cXX.py encode the per-property rules',
            }
        ],
        'checks': checks,
        'not_applicable': na,
        'notes': 'Static analysis only: nothing from /repo is imported or executed by any check. Exit 2 + ANALYSIS-ERROR means the checker is blind (vanished anchor / too few rule instances), which is neither a pass nor a violation. Known findings: /verif/known_findings.txt.',
    }
    out = os.path.join(HERE, 'MANIFEST.json')
    json.dump(man, open(out, 'w'), indent=1)
    # validate
    try:
        sys.path.insert(0, '/opt/veriftools/pyvenv/lib/python3.11/site-packages')
        import jsonschema

        jsonschema.validate(man, json.load(open('/root/.vp/MANIFEST.schema.json')))
        print('MANIFEST.json valid;', len(checks), 'claimed,', len(na), 'not applicable')
    except ImportError:
        print('jsonschema unavailable; wrote MANIFEST.json unvalidated')


NA_REASONS = {}

if __name__ == '__main__':
    main()
