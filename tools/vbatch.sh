#!/bin/bash
# usage: vbatch.sh ID m...   (sequential inside one worktree)
ID=$1; shift
for m in "$@"; do /verif/tools/verify_seed.sh $ID $m 2>&1 | grep -v "^WARNING" >> /tmp/seed/verify.log; done
