#!/venv/bin/python
"""Print the numbers quoted in DESIGN.md 11.1 / 11.5 / 11.7 from the current state of /verif."""
import collections, glob, importlib, json, os, sys
sys.path.insert(0, os.path.dirname(os.path.dirname(os.path.abspath(__file__))))
from mpsa.loader import Repo
from mpsa.report import Checker
repo = Repo()
tot_r = tot_o = 0
for i in range(1, 21):
    p = f'C{i:02d}'
    ck = Checker(p, repo, 'quick')
    importlib.import_module(f'rules.{p.lower()}').run(ck)
    tot_r += len(ck.rules); tot_o += len(ck.obs)
    print(p, len(ck.rules), 'rules', len(ck.obs), 'obligations', len(ck.analysed), 'functions')
print('total', tot_r, 'rules', tot_o, 'obligations')
from selftest.catalogue import VARIANTS
kinds = collections.Counter((v.kind, v.vid.split('-')[0] + '-' + v.vid.split('-')[1] if v.vid.startswith('G-') else 'Cxx') for v in VARIANTS)
print('variants', len(VARIANTS), dict(collections.Counter(v.kind for v in VARIANTS)))
print({k: n for k, n in sorted(kinds.items(), key=lambda x: str(x))})
rows = [json.load(open(f)) for f in sorted(glob.glob('/verif/seeded/C*/meta.json'))]
c = collections.Counter(r['static_check']['initially'] for r in rows)
print('seeded', len(rows), dict(c))
byround = collections.Counter(('r1' if os.path.basename(os.path.dirname(f)).split('-')[1].startswith('m') else os.path.basename(os.path.dirname(f)).split('-')[1][:2], json.load(open(f))['static_check']['initially']) for f in sorted(glob.glob('/verif/seeded/C*/meta.json')))
print(dict(byround))
import subprocess
print('lines:', subprocess.run('wc -l /verif/mpsa/*.py /verif/rules/*.py /verif/selftest/*.py | tail -1', shell=True, capture_output=True, text=True).stdout.strip())
