#!/venv/bin/python
"""listobs.py <PROP> [rule-prefix] [--repo dir]  -- print every obligation of a property's check (debug aid)."""
import importlib, os, sys
sys.path.insert(0, os.path.dirname(os.path.dirname(os.path.abspath(__file__))))
args = sys.argv[1:]
if '--repo' in args:
    i = args.index('--repo'); os.environ['MPSA_REPO'] = args[i + 1]; del args[i:i + 2]
from mpsa.loader import Repo
from mpsa.report import Checker
prop = args[0]; pref = args[1] if len(args) > 1 else ''
repo = Repo(os.environ.get('MPSA_REPO', '/repo'))
ck = Checker(prop, repo, 'quick')
importlib.import_module(f'rules.{prop.lower()}').run(ck)
for o in ck.obs:
    if o.rule.startswith(pref):
        print(('ok  ' if o.ok else 'FAIL'), o.rule, o.where, o.func, '--', o.detail[:220])
