#!/venv/bin/python
"""Debug helper: dump the CFG of one function.  usage: dumpcfg.py <module rel> <qualname> [user]"""
import os, sys
sys.path.insert(0, os.path.dirname(os.path.dirname(os.path.abspath(__file__))))
from mpsa.loader import Repo
from mpsa.exc import ExcLattice
from mpsa.cfg import CFG
from rules.common import make_fallible
from mpsa.match import Scope
repo = Repo()
f = repo.func(sys.argv[1], sys.argv[2])
lat = ExcLattice(repo)
fal = make_fallible(Scope(f)) if len(sys.argv) > 3 else None
g = CFG(f.node, lat, fal)
print(g.dump())
