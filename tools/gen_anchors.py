#!/venv/bin/python
"""gen_anchors.py -- (re)write /verif/anchors.json: body fingerprints of every function the rules look up by name, taken
from the tree the rules are confirmed on (/repo, or --repo DIR).  Run after the rules or the confirmed tree change."""
import importlib, json, os, sys
sys.path.insert(0, os.path.dirname(os.path.dirname(os.path.abspath(__file__))))
args = sys.argv[1:]
if '--repo' in args:
    i = args.index('--repo'); os.environ['MPSA_REPO'] = args[i + 1]
os.environ['MPSA_NO_RENAME_TOLERANCE'] = '1'
from mpsa import loader
from mpsa.anchors import fingerprint, ANCHORS_FILE
from mpsa.report import Checker
loader.LOOKUP_LOG = set()
repo = loader.Repo()
for i in range(1, 21):
    prop = f'C{i:02d}'
    ck = Checker(prop, repo, 'quick')
    importlib.import_module(f'rules.{prop.lower()}').run(ck)
    for f in getattr(ck, 'analysed', {}).values() if isinstance(getattr(ck, 'analysed', None), dict) else []:
        pass
out = {}
for rel, q in sorted(loader.LOOKUP_LOG):
    m = repo.modules.get(rel)
    if m is None or q not in m.functions:
        continue
    # also every ancestor function (a renamed parent moves its nested functions)
    parts = q.split('.')
    for k in range(1, len(parts) + 1):
        qq = '.'.join(parts[:k])
        if qq in m.functions:
            out.setdefault(rel, {})[qq] = dict(fingerprint(m.functions[qq].node))
from mpsa.normalize import self_aliases
import ast as _ast
# every local name of every method of the confirmed tree: a local that exists there keeps its role; only *new* locals
# bound to attributes of self are read as aliases (mpsa/normalize.unalias_self)
out['__aliases__'] = {rel: {q: sorted({x.id for x in _ast.walk(fi.node) if isinstance(x, _ast.Name) and isinstance(x.ctx, _ast.Store)}) for q, fi in m.functions.items()} for rel, m in repo.modules.items()}
out['__globals__'] = {rel: sorted({t.id for st in m.tree.body if isinstance(st, (_ast.Assign, _ast.AnnAssign)) for t in (st.targets if isinstance(st, _ast.Assign) else [st.target]) if isinstance(t, _ast.Name)}) for rel, m in repo.modules.items()}
from mpsa.normalize import local_skeleton
from mpsa.loader import FuncInfo as _FI
# locals of every outermost function in order of first occurrence, with a digest of the function with the locals abstracted
# (mpsa/normalize.restore_local_names)
out['__locals__'] = {rel: {q: local_skeleton(fi.node) for q, fi in m.functions.items() if not isinstance(fi.parent, _FI)} for rel, m in repo.modules.items()}
from mpsa.normalize import attribute_signatures
# signature of every attribute name per module, taken from the files as they are (mpsa/normalize.attribute_renames)
from mpsa.normalize import class_signatures, identifiers
from mpsa.normalize import canonicalize as _canon


def _canon_parse(src):
    t = _ast.parse(src)
    _canon(t)
    return t


out['__attrs__'] = {rel: attribute_signatures(_canon_parse(m.source)) for rel, m in repo.modules.items()}
out['__classes__'] = {rel: class_signatures(_canon_parse(m.source)) for rel, m in repo.modules.items()}
out['__words__'] = sorted(set().union(*[identifiers(_canon_parse(m.source)) for m in repo.modules.values()]))
from mpsa.normalize import symmetric_comparisons
out['__cmps__'] = {rel: {q: symmetric_comparisons(fi.node) for q, fi in m.functions.items() if not isinstance(fi.parent, _FI)} for rel, m in repo.modules.items()}
out['__all__'] = {rel: sorted(q for q in m.functions if '#' not in q) for rel, m in repo.modules.items()}
ANCHORS_FILE.write_text(json.dumps(out, indent=0, sort_keys=True))
print(f'{ANCHORS_FILE}: {sum(len(v) for k, v in out.items() if k not in ("__all__", "__aliases__", "__globals__", "__locals__", "__attrs__", "__classes__", "__words__", "__cmps__"))} fingerprints; {sum(len(v) for v in out["__all__"].values())} reference names')
