#!/usr/bin/env python3
"""Regenerate the table and the tallies of DESIGN.md section 11.5 from /verif/seeded/*/meta.json."""
import collections, glob, json, os, re, subprocess
D = '/verif/DESIGN.md'
s = open(D).read()
a = s.index('| seeded change | what it does | first run | reported by |')
b = s.index('### 11.7')
table = subprocess.run(['python3', '/verif/tools/seed_table.py'], capture_output=True, text=True).stdout
table = table[table.index('| seeded change |'):]
rows = []
for f in sorted(glob.glob('/verif/seeded/C*/meta.json')):
    m = json.load(open(f))
    tag = os.path.basename(os.path.dirname(f)).split('-')[1]
    rnd = 'r1' if tag.startswith('m') else re.match(r'([a-z]\d)', tag).group(1)
    rows.append((rnd, m['static_check']['initially']))
c = collections.Counter(rows)
rounds = sorted({r for r, _ in rows})
per = []
for r in rounds:
    n = sum(v for (rr, _), v in c.items() if rr == r)
    per.append(f"{r}: {c[(r, 'caught')]}/{n} reported on the first run" + (f", {c[(r, 'blind')]} ended as analysis-broken (exit 2)" if c[(r, 'blind')] else ''))
tot = len(rows)
caught = sum(v for (_, k), v in c.items() if k == 'caught')
tail = f"""
{tot} kept; {caught} reported on the first run, {tot - caught} not (each of those led to a new or stronger rule, or to a cross-listing, after which all {tot} are reported: `tools/seed_regress.sh`, and the thorough tier of each property replays its own).
Per round — {'; '.join(per)}.  Rounds r2–r4 told each agent what had already been produced for its property and asked for
something *different* (another clause, site or mechanism), so their rate measures how the rules generalise to clauses nobody
had attacked yet, and it stayed near one third throughout; the round tagged `f5` repeated the first round's prompt (no list of
earlier changes, no hints) against the final rules and is the better estimate for an independent change.


Reading of the table: the first-run rate is the honest measure of how far
rules written from reading the code generalise to changes nobody told them
about; the misses cluster in clauses the plan had not decomposed far enough
(ordering inside cleanups, "what a normal exit implies", counters, queue bounds,
thread flags, which object a resource belongs to, what a handler may catch), not in the engine. About a third of the
later misses were reported on the first run by the check of a *neighbouring* property and led to a cross-listing rather
than a new rule. Every miss was turned into a rule that states a
necessary condition (11.3) — never into a pattern for the particular patch — and
the equivalents of the self-test were re-run after each addition.

"""
s = s[:a] + table.rstrip('\n') + '\n' + tail + s[b:]
open(D, 'w').write(s)
print('11.5 regenerated:', tot, 'seeds;', '; '.join(per))
