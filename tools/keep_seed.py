#!/venv/bin/python
"""keep_seed.py <ID> <mN> <initially: caught|missed|blind> <caught_by rule(s)> [note]
Copy a confirmed seeded change from /tmp/seed/<ID>/out/<mN> into /verif/seeded/<ID>-<mN>/ with a meta.json that
records what it breaks, what it needs to manifest, what was run to confirm it, and which check reports it."""
import json, os, shutil, sys
ID, M, initially, caught_by = sys.argv[1:5]
note = sys.argv[5] if len(sys.argv) > 5 else ''
src = f'/tmp/seed/{ID}/out/{M}'
dst = f'/verif/seeded/{ID}-{M}'
os.makedirs(dst, exist_ok=True)
shutil.copy(f'{src}/patch.diff', f'{dst}/patch.diff')
shutil.copy(f'{src}/demo.py', f'{dst}/demo.py')
try:
    meta = json.load(open(f'{src}/meta.json'))
except Exception as e:
    meta = {'property': ID, 'note': f'agent meta unreadable: {e}'}
def rd(p):
    try: return open(p).read().strip()
    except Exception: return None
meta_out = {
    'property': ID,
    'title': meta.get('title'),
    'what_breaks': meta.get('what_breaks'),
    'needs_to_manifest': meta.get('needs_to_manifest'),
    'files_changed': meta.get('files_changed'),
    'author': 'independent sub-agent given only the property text and a scratch worktree',
    'confirmed_by_me': {
        'how': 'tools/verify_seed.sh: demo on the clean scratch worktree, demo with the patch applied, then the test modules that exercise the changed files with the patch applied',
        'demo_exit_unchanged': rd(f'{src}/verify_unchanged.rc'),
        'demo_exit_changed': rd(f'{src}/verify_changed.rc'),
        'tests_exit_with_patch': rd(f'{src}/verify_tests.rc'),
        'tests_summary': (rd(f'{src}/verify_tests.log') or '').splitlines()[-1:] ,
    },
    'static_check': {
        'initially': initially,
        'reported_by': caught_by,
        'note': note,
        'replay': f'tools/try_patch.sh seeded/{ID}-{M}/patch.diff {ID}',
    },
}
json.dump(meta_out, open(f'{dst}/meta.json', 'w'), indent=1)
print('kept', dst, meta_out['confirmed_by_me'])
